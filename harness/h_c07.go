package main

// C07: error recovery costs only the statement it is in; printing a tree that was
// returned despite errors emits only source text, each token at most once, in order.

import (
	"github.com/z7zmey/php-parser/pkg/ast"
)

func init() {
	Register("H_C07_Recover", H_C07_Recover)
	Register("H_C07_Print", H_C07_Print)
}

// stmtListOf returns the statement list the breaker was put into.
//
//	top:    Root.Stmts
//	block:  <?php if ($c) { ... } T      -> the block of the first statement
//	func:   <?php function f() { ... } T -> the function body
//	nested: <?php while ($c) { if ($d) { ... } } T
//	method: <?php class C { function m() { ... } } T
func stmtListOf(root ast.Vertex, ctx string) ([]ast.Vertex, bool) {
	r, ok := root.(*ast.Root)
	if !ok {
		return nil, false
	}
	if ctx == "top" {
		return r.Stmts, true
	}
	if len(r.Stmts) == 0 {
		return nil, false
	}
	first := r.Stmts[0]
	block := func(n ast.Vertex) ([]ast.Vertex, bool) {
		if b, ok := n.(*ast.StmtStmtList); ok {
			return b.Stmts, true
		}
		return nil, false
	}
	switch ctx {
	case "block":
		if s, ok := first.(*ast.StmtIf); ok {
			return block(s.Stmt)
		}
	case "func":
		if s, ok := first.(*ast.StmtFunction); ok {
			return s.Stmts, true
		}
	case "nested":
		if w, ok := first.(*ast.StmtWhile); ok {
			if outer, ok := block(w.Stmt); ok && len(outer) > 0 {
				if s, ok := outer[0].(*ast.StmtIf); ok {
					return block(s.Stmt)
				}
			}
		}
	case "namespace":
		if ns, ok := first.(*ast.StmtNamespace); ok {
			return ns.Stmts, true
		}
	case "closure":
		if e, ok := first.(*ast.StmtExpression); ok {
			if as, ok := e.Expr.(*ast.ExprAssign); ok {
				if cl, ok := as.Expr.(*ast.ExprClosure); ok {
					return cl.Stmts, true
				}
			}
		}
	case "altif":
		if s, ok := first.(*ast.StmtIf); ok {
			return block(s.Stmt)
		}
	case "method":
		if c, ok := first.(*ast.StmtClass); ok && len(c.Stmts) > 0 {
			if m, ok := c.Stmts[0].(*ast.StmtClassMethod); ok {
				return block(m.Stmt)
			}
		}
	}
	return nil, false
}

// H_C07_Recover. Parameters: tmpl = context + well-formed statements + breaker + two
// well-formed statements (+ closing of the context + one trailing statement);
// "prefix" = the same program cut before the breaker and closed properly;
// "npre" = number of statements before the breaker in the list; "last" = a program
// whose last statement of the same list is the statement that follows the breaker last.
func H_C07_Recover() {
	in, _ := BuildInput()
	major, minor := PickVersion()
	ctx := ParamStr("ctx")
	npre := ParamInt("npre")
	ObserveBytes("in", in)
	a := ParseWith(in, major, minor, true)
	Observe("nerr", len(a.Errs))
	if len(a.Errs) == 0 {
		// the solver made the breaker well-formed after all (cannot happen with the
		// breakers used, kept as a guard against a vacuous template)
		Cover("discarded:no-error")
		return
	}
	if IsNilVertex(a.Root) {
		Cover("discarded:no-tree-returned")
		return
	}
	Cover("recovered")
	what := ParamStr("what")
	ref := ParseWith([]byte(ParamStr("prefix")), major, minor, true)
	if len(ref.Errs) != 0 || IsNilVertex(ref.Root) {
		Fail("C07:harness", "the reference prefix does not parse: "+what)
		return
	}
	want, ok1 := stmtListOf(ref.Root, ctx)
	got, ok2 := stmtListOf(a.Root, ctx)
	if !ok1 || len(want) < npre {
		Fail("C07:harness", "reference list not found: "+what)
		return
	}
	if !ok2 {
		Fail("C07:preceding-statements-kept", "the enclosing construct is gone: "+what)
		return
	}
	if len(got) < npre {
		Fail("C07:preceding-statements-kept", "statements before the malformed one are missing: "+what)
		return
	}
	for i := 0; i < npre; i++ {
		eq, diff := TreeEq(got[i], want[i], CmpTokens|CmpFreeFloat|CmpPositions)
		if diff != "" {
			Fail("C07:preceding-statements-kept", "statement "+itoaL(i)+" differs from parsing it alone ("+diff+"): "+what)
			return
		}
		Assert("C07:preceding-statements-kept|"+what, eq)
	}
	// parsing continues: the last statement of the list is the one written last
	lastRef := ParseWith([]byte(ParamStr("last")), major, minor, true)
	wl, ok3 := stmtListOf(lastRef.Root, ctx)
	if len(lastRef.Errs) != 0 || !ok3 || len(wl) == 0 {
		Fail("C07:harness", "the reference for the last statement does not parse: "+what)
		return
	}
	if len(got) <= npre {
		Fail("C07:parsing-continues-after-the-error", "nothing after the malformed statement is in the list: "+what)
		return
	}
	eq, diff := TreeEq(got[len(got)-1], wl[len(wl)-1], CmpTokens)
	if diff != "" {
		Fail("C07:parsing-continues-after-the-error", "the last statement of the list is not the one written last ("+diff+"): "+what)
		return
	}
	Assert("C07:parsing-continues-after-the-error|"+what, eq)
	if ctx != "top" {
		// the statement after the enclosing construct survives as well
		ra, _ := a.Root.(*ast.Root)
		rl, _ := lastRef.Root.(*ast.Root)
		if ra == nil || rl == nil || len(ra.Stmts) == 0 || len(rl.Stmts) == 0 {
			Fail("C07:parsing-continues-after-the-error", "no top-level statements: "+what)
			return
		}
		eq, diff := TreeEq(ra.Stmts[len(ra.Stmts)-1], rl.Stmts[len(rl.Stmts)-1], CmpTokens)
		if diff != "" {
			Fail("C07:parsing-continues-after-the-error", "the statement after the enclosing construct is lost ("+diff+"): "+what)
			return
		}
		Assert("C07:parsing-continues-after-the-error|"+what, eq)
	}
	checkPrintOnlySource(in, a.Root)
}

// checkPrintOnlySource: every chunk the printer writes is a slice of the source, at an
// offset not before the end of the previous one, or a single separating space.
func checkPrintOnlySource(in []byte, root ast.Vertex) {
	ch := PrintTree(root)
	at := 0
	openTags := 0
	for _, c := range ch.list {
		if len(c) == 0 {
			continue
		}
		off := SliceOff(in, c)
		if off < 0 || off+len(c) > len(in) {
			if len(c) == 1 && !IsSymbolic(c) && c[0] == ' ' {
				continue
			}
			if !IsSymbolic(c) && string(c) == "<?php " {
				// the printer's own state machine: PHP code is about to be printed and
				// the tree holds no open tag before it (recovery dropped the token that
				// carried it); not text taken from anywhere else
				openTags++
				continue
			}
			Fail("C07:print-invents-text", concreteText(c))
			return
		}
		if off < at {
			Fail("C07:print-repeats-or-reorders-source-text", ownerName(root, in, off, len(c)))
			return
		}
		at = off + len(c)
	}
}

// H_C07_Print: the printing half of the property on every tree returned with errors.
func H_C07_Print() {
	in, _ := BuildInput()
	major, minor := PickVersion()
	ObserveBytes("in", in)
	a := ParseWith(in, major, minor, true)
	Observe("nerr", len(a.Errs))
	if IsNilVertex(a.Root) {
		Cover("discarded:no-tree")
		return
	}
	if len(a.Errs) == 0 {
		Cover("error-free")
	} else {
		Cover("tree-with-errors")
	}
	checkPrintOnlySource(in, a.Root)
}
