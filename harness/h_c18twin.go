package main

// The part of C18 that needs no access to the pools' unexported state: it is also what is
// left when a change to the pool layout makes the overlaid accessors (harness/pkg/pkg/*) fail
// to compile.

import (
	"github.com/z7zmey/php-parser/pkg/position"
	"github.com/z7zmey/php-parser/pkg/token"
)

func init() { Register("H_C18_Twin", H_C18_Twin) }

// Concrete twin: block size L, n requests (the driver passes enough to cross the block
// boundary many times), a distinct value written through every pointer, all read back
// afterwards.
func H_C18_Twin() {
	L := ParamInt("L")
	n := ParamInt("n")
	tp := token.NewPool(L)
	pp := position.NewPool(L)
	ts := make([]*token.Token, n)
	ps := make([]*position.Position, n)
	for i := 0; i < n; i++ {
		ts[i] = tp.Get()
		ps[i] = pp.Get()
		Assert("C18:twin-non-nil", ts[i] != nil && ps[i] != nil)
		ts[i].ID = token.ID(1000 + i)
		ts[i].Value = []byte{byte(i)}
		ps[i].StartPos = 2000 + i
		ps[i].EndLine = 3000 + i
	}
	ok := true
	for i := 0; i < n; i++ {
		for k := i + 1; k < n; k++ {
			if ts[i] == ts[k] || ps[i] == ps[k] {
				ok = false
			}
		}
		if ts[i].ID != token.ID(1000+i) || len(ts[i].Value) != 1 || ts[i].Value[0] != byte(i) || ps[i].StartPos != 2000+i || ps[i].EndLine != 3000+i {
			ok = false
		}
	}
	Assert("C18:twin-distinct-and-stable", ok)
	z := token.NewPool(0)
	Assert("C18:zero-size-convention", z.Get() == nil)
	Observe("n", n)
	Cover("twin")
}

