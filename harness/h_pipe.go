package main

// Oracles shared by the whole-pipeline properties (C02, C04, C06, ...).

import (
	"github.com/z7zmey/php-parser/internal/scanner"
	"github.com/z7zmey/php-parser/pkg/ast"
	"github.com/z7zmey/php-parser/pkg/conf"
	"github.com/z7zmey/php-parser/pkg/errors"
	"github.com/z7zmey/php-parser/pkg/token"
	"github.com/z7zmey/php-parser/pkg/version"
)

func init() {
	Register("H_C02", H_C02)
	Register("H_C04", H_C04)
	Register("H_C06", H_C06)
}

func byteClass(b byte) string {
	if b >= '0' && b <= '9' {
		return "digit"
	}
	if (b >= 'a' && b <= 'z') || (b >= 'A' && b <= 'Z') || b == '_' || b >= 0x80 {
		return "letter"
	}
	return "other"
}

func concreteText(b []byte) string {
	if IsSymbolic(b) {
		return "<source bytes>"
	}
	return "\"" + string(b) + "\""
}

// checkRoundTrip: print(root) must be byte-identical to in. The verdict is byte
// equality (an SMT query wherever an output byte is not literally the input byte at
// the same offset); provenance is only used to describe the deviation.
func checkRoundTrip(in []byte, root ast.Vertex) {
	ch := PrintTree(root)
	o := 0
	for k, c := range ch.list {
		off := SliceOff(in, c)
		if off == o && o+len(c) <= len(in) {
			o += len(c)
			continue
		}
		what := "moved " + concreteText(c)
		if off > o {
			// source text, but later than expected: the bytes in between were not printed
			what = "source bytes missing before " + ownerName(root, in, off, len(c))
		} else if off >= 0 {
			what = "source text printed again or too late: " + ownerName(root, in, off, len(c))
		}
		if off < 0 {
			what = "invented " + concreteText(c)
			if len(c) == 1 && !IsSymbolic(c) && c[0] == ' ' && k > 0 && k+1 < len(ch.list) {
				p, n := ch.list[k-1], ch.list[k+1]
				if len(p) > 0 && len(n) > 0 {
					what += " between " + byteClass(p[len(p)-1]) + " and " + byteClass(n[0])
					if po := SliceOff(in, p); po >= 0 {
						what += " after " + ownerName(root, in, po, len(p))
					}
				}
			}
		}
		if o+len(c) > len(in) {
			Fail("C02:roundtrip", "output longer than the source: "+what)
			return
		}
		Assert("C02:roundtrip|"+what, BytesEq(c, in[o:o+len(c)]))
		o += len(c)
	}
	if o != len(in) {
		Fail("C02:roundtrip", "output shorter than the source")
	}
}

// ownerName: id of the token whose value is in[off:off+n].
func ownerName(root ast.Vertex, in []byte, off, n int) string {
	for _, t := range TokensOf(root, nil, true) {
		if len(t.Value) == n && SliceOff(in, t.Value) == off {
			return t.ID.String()
		}
	}
	return "?"
}

func H_C02() {
	in, _ := BuildInput()
	major, minor := PickVersion()
	ObserveBytes("in", in)
	a := ParseWith(in, major, minor, true)
	Observe("nerr", len(a.Errs))
	if len(a.Errs) != 0 || IsNilVertex(a.Root) {
		Cover("discarded:errors-reported")
		return
	}
	Cover("error-free")
	checkRoundTrip(in, a.Root)
}

// ---- C04 ---------------------------------------------------------------------------

func isWsByte(b byte) bool {
	return Or(Or(Or(b == ' ', b == '\t'), Or(b == '\n', b == '\r')), Or(b == '\v', b == '\f'))
}

func hasPrefixSym(b []byte, p string) bool {
	if len(b) < len(p) {
		return false
	}
	ok := true
	for i := 0; i < len(p); i++ {
		ok = And(ok, b[i] == p[i])
	}
	return ok
}

// checkTokens asserts C04 (1)-(4) on the tokens of a returned tree.
// firstTokenStart: smallest start offset of a token with text in n's subtree, or -1.
func firstTokenStart(n ast.Vertex) int {
	m := -1
	for _, t := range TokensOf(n, nil, false) {
		if t.Position != nil && len(t.Value) > 0 && (m < 0 || t.Position.StartPos < m) {
			m = t.Position.StartPos
		}
	}
	return m
}

func checkTokens(in []byte, root ast.Vertex, errorFree bool) {
	lines := LineTable(in)
	toks := TokensOf(root, nil, true)
	Observe("ntok", len(toks))
	textOK, linesOK := true, true
	for _, t := range toks {
		p := t.Position
		if p == nil && t.ID <= 0 && len(t.Value) == 0 {
			// the end-of-input sentinel (Root.EndTkn) has no text and no offsets;
			// it only carries the trailing free-floating tokens
			continue
		}
		if p == nil {
			Fail("C04:token-position", "token without position, id "+t.ID.String())
			return
		}
		if p.StartPos < 0 || p.StartPos > p.EndPos || p.EndPos > len(in) {
			Fail("C04:token-offsets-in-range", t.ID.String())
			return
		}
		if len(t.Value) != p.EndPos-p.StartPos {
			Fail("C04:token-text-length", t.ID.String())
			return
		}
		if SliceOff(in, t.Value) != p.StartPos {
			// not the source slice itself: must at least be byte-equal to it
			textOK = And(textOK, BytesEq(t.Value, in[p.StartPos:p.EndPos]))
		}
		linesOK = And(linesOK, p.StartLine == lines[p.StartPos])
		if p.EndPos > p.StartPos {
			linesOK = And(linesOK, p.EndLine == lines[p.EndPos-1])
		}
	}
	Assert("C04:token-text-is-source-slice", textOK)
	Assert("C04:token-lines", linesOK)
	// order and overlap: sorted by start offset (separator tokens live in their own
	// list slots, so tree order is not offset order), neighbours must not overlap;
	// free-floating tokens precede their owner, in order and without gaps
	toks = withPositions(toks)
	toks = mergeSortTokens(toks)
	for i := 1; i < len(toks); i++ {
		a, b := toks[i-1].Position, toks[i].Position
		if a.EndPos > b.StartPos {
			Fail("C04:tokens-ordered-disjoint", toks[i-1].ID.String()+" overlaps "+toks[i].ID.String())
			return
		}
	}
	if !errorFree {
		return
	}
	ffOK := true
	walkOwnTokens(root, func(t *token.Token) {
		at := -1
		for _, f := range t.FreeFloating {
			if f == nil || f.Position == nil {
				continue
			}
			if at >= 0 && f.Position.StartPos != at {
				ffOK = false
			}
			at = f.Position.EndPos
		}
		if at >= 0 && t.Position != nil && t.Position.StartPos != at {
			ffOK = false
		}
	})
	if !ffOK {
		Fail("C04:free-floating-precedes-owner", "")
	}
	// order in the tree: within a node, the single-token slots and the single-child slots
	// (list slots aside: separators live in a list of their own) start in declaration order
	Walk(root, nil, func(n, _ ast.Vertex) {
		last, lastName := -1, ""
		for _, sl := range SlotsOf(n) {
			st := -1
			switch sl.Kind {
			case SToken:
				if sl.T != nil && sl.T.Position != nil && len(sl.T.Value) > 0 {
					st = sl.T.Position.StartPos
				}
			case SVertex:
				if !IsNilVertex(sl.V) {
					st = firstTokenStart(sl.V)
				}
			}
			if st < 0 {
				continue
			}
			if st < last {
				Fail("C04:tokens-in-tree-order", KindNames[KindOf(n)]+"."+sl.Name+" starts before "+lastName)
				return
			}
			last, lastName = st, sl.Name
		}
	})
	// tiling
	at := 0
	for _, t := range toks {
		if t.Position.StartPos != at {
			Fail("C04:tiling-gap", "before "+t.ID.String())
			return
		}
		at = t.Position.EndPos
	}
	if at != len(in) {
		Fail("C04:tiling-gap", "at end of input")
		return
	}
	// classification of free-floating tokens
	classOK := true
	walkOwnTokens(root, func(t *token.Token) {
		for _, f := range t.FreeFloating {
			switch f.ID {
			case token.T_WHITESPACE:
				for _, b := range f.Value {
					classOK = And(classOK, isWsByte(b))
				}
				if len(f.Value) == 0 {
					Fail("C04:free-floating-class", "empty whitespace token")
				}
			case token.T_COMMENT:
				c := Or(hasPrefixSym(f.Value, "#"), Or(hasPrefixSym(f.Value, "//"), hasPrefixSym(f.Value, "/*")))
				if len(f.Value) >= 4 {
					c = And(c, Not(And(hasPrefixSym(f.Value, "/**"), isWsByte(f.Value[3]))))
				}
				classOK = And(classOK, c)
			case token.T_DOC_COMMENT:
				classOK = And(classOK, hasPrefixSym(f.Value, "/**"))
			case token.T_OPEN_TAG:
				classOK = And(classOK, hasPrefixSym(f.Value, "<?"))
			case token.T_HALT_COMPILER:
			default:
				Fail("C04:free-floating-class", "unexpected free-floating token id "+f.ID.String())
			}
		}
	})
	Assert("C04:free-floating-class", classOK)
	// leaf values
	leafOK := true
	Walk(root, nil, func(n, _ ast.Vertex) {
		var val []byte
		has := false
		var text []byte
		for _, s := range SlotsOf(n) {
			switch s.Kind {
			case SBytes:
				val, has = s.B, true
			case SToken:
				if s.T != nil {
					text = append(text, s.T.Value...)
				}
			case SVertex, SVertexList:
				if s.Kind == SVertex && !IsNilVertex(s.V) || len(s.VL) > 0 {
					has = false
				}
			}
		}
		if !has {
			return
		}
		if len(val) != len(text) {
			Fail("C04:leaf-value", kindName(KindOf(n)))
			return
		}
		leafOK = And(leafOK, BytesEq(val, text))
	})
	Assert("C04:leaf-value-is-token-text", leafOK)
}

// walkOwnTokens calls f for every non-free-floating token of the tree.
func walkOwnTokens(root ast.Vertex, f func(t *token.Token)) {
	Walk(root, nil, func(n, _ ast.Vertex) {
		for _, s := range SlotsOf(n) {
			switch s.Kind {
			case SToken:
				if s.T != nil {
					f(s.T)
				}
			case STokenList:
				for _, t := range s.TL {
					if t != nil {
						f(t)
					}
				}
			}
		}
	})
}

func H_C04() {
	in, _ := BuildInput()
	major, minor := PickVersion()
	ObserveBytes("in", in)
	a := ParseWith(in, major, minor, true)
	Observe("nerr", len(a.Errs))
	if IsNilVertex(a.Root) {
		Cover("discarded:no-tree")
		return
	}
	if len(a.Errs) == 0 {
		Cover("error-free")
	} else {
		Cover("tree-with-errors")
	}
	checkTokens(in, a.Root, len(a.Errs) == 0)
}

// ---- C06 ---------------------------------------------------------------------------

// lexAll returns the raw token stream of in (ids, spans) with a silent handler.
func lexAll(in []byte, major, minor uint64) []*token.Token {
	cfg := conf.Config{Version: &version.Version{Major: major, Minor: minor}, ErrorHandlerFunc: func(e *errors.Error) {}}
	lex := scanner.NewLexer(in, cfg)
	var out []*token.Token
	for {
		t := lex.Lex()
		if t == nil || t.ID <= 0 {
			break
		}
		out = append(out, t)
		if len(out) > 4*len(in)+16 {
			break
		}
	}
	return out
}

// malformedWhy: sufficient conditions for "not a valid program" on the token stream.
func malformedWhy(toks []*token.Token) string {
	var stack []byte
	quotes, ticks, hd := 0, 0, 0
	for _, t := range toks {
		switch t.ID {
		case token.ID('('), token.ID('['), token.ID('{'), token.T_CURLY_OPEN, token.T_DOLLAR_OPEN_CURLY_BRACES:
			c := byte('{')
			if t.ID == token.ID('(') || t.ID == token.ID('[') {
				c = byte(t.ID)
			}
			stack = append(stack, c)
		case token.ID(')'), token.ID(']'), token.ID('}'):
			want := byte('(')
			if t.ID == token.ID(']') {
				want = '['
			} else if t.ID == token.ID('}') {
				want = '{'
			}
			if len(stack) == 0 || stack[len(stack)-1] != want {
				return "unmatched closing bracket"
			}
			stack = stack[:len(stack)-1]
		case token.ID('"'):
			quotes++
		case token.ID('`'):
			ticks++
		case token.T_START_HEREDOC:
			hd++
		case token.T_END_HEREDOC:
			hd--
		}
	}
	if len(stack) != 0 {
		return "unclosed bracket"
	}
	if quotes%2 != 0 {
		return "unterminated double-quoted string"
	}
	if ticks%2 != 0 {
		return "unterminated backquote string"
	}
	if hd != 0 {
		return "unterminated heredoc"
	}
	if n := len(toks); n > 0 {
		switch toks[n-1].ID {
		case token.ID(';'), token.ID('}'), token.ID(':'), token.T_INLINE_HTML:
		default:
			return "last token cannot end a program"
		}
	}
	return ""
}

func H_C06() {
	in, _ := BuildInput()
	major, minor := PickVersion()
	ObserveBytes("in", in)
	a := ParseWith(in, major, minor, true)
	Observe("nerr", len(a.Errs))
	// (2) malformed => reported
	toks := lexAll(in, major, minor)
	why := malformedWhy(toks)
	if why != "" {
		Cover("malformed")
		if len(a.Errs) == 0 {
			Fail("C06:malformed-input-reported", why)
		}
	}
	// (1) silent => complete
	if len(a.Errs) == 0 {
		Cover("silent")
		if IsNilVertex(a.Root) {
			Fail("C06:silent-parse-has-tree", "nil root without any reported error")
		} else {
			checkRoundTrip(in, a.Root)
			checkTokens(in, a.Root, true)
		}
	}
	// (3) shape of every error
	lines := LineTable(in)
	lineOK := true
	last := -1
	for ei, e := range a.Errs {
		if len(e.Msg) == 0 {
			Fail("C06:error-message-non-empty", "")
		}
		if e.Pos == nil {
			// no position = end of input: nothing in the source comes after it
			for _, later := range a.Errs[ei+1:] {
				if later.Pos != nil {
					Fail("C06:errors-in-source-order", "the end-of-input error is delivered before an error with a position")
					break
				}
			}
			continue
		}
		Cover("error-with-position")
		p := e.Pos
		if p.StartPos < 0 || p.StartPos > p.EndPos || p.EndPos > len(in) {
			Fail("C06:error-position-in-range", e.Msg)
			continue
		}
		lineOK = And(lineOK, p.StartLine == lines[p.StartPos])
		if p.EndPos > p.StartPos {
			lineOK = And(lineOK, p.EndLine == lines[p.EndPos-1])
		}
		if p.StartPos < last {
			Fail("C06:errors-in-source-order", e.Msg)
		}
		last = p.StartPos
		if hasPrefixStr(e.Msg, "syntax error") {
			found := false
			for _, t := range toks {
				if t.Position.StartPos == p.StartPos && t.Position.EndPos == p.EndPos {
					found = true
				}
			}
			if !found {
				Fail("C06:syntax-error-selects-a-token", "")
			}
		}
	}
	Assert("C06:error-lines", lineOK)
	// (4) the callback does not influence the tree
	b := ParseWith(in, major, minor, false)
	eq, diff := TreeEq(a.Root, b.Root, CmpTokens|CmpFreeFloat|CmpPositions)
	if diff != "" {
		Fail("C06:callback-independent-tree", diff)
	} else {
		Assert("C06:callback-independent-tree", eq)
	}
}

func hasPrefixStr(s, p string) bool {
	return len(s) >= len(p) && s[:len(p)] == p
}

// mergeSortTokens orders tokens by (start, end); positions are concrete.
func mergeSortTokens(ts []*token.Token) []*token.Token {
	if len(ts) < 2 {
		return ts
	}
	m := len(ts) / 2
	a, b := mergeSortTokens(ts[:m:m]), mergeSortTokens(ts[m:])
	out := make([]*token.Token, 0, len(ts))
	i, j := 0, 0
	for i < len(a) && j < len(b) {
		if tokLess(b[j], a[i]) {
			out = append(out, b[j])
			j++
		} else {
			out = append(out, a[i])
			i++
		}
	}
	out = append(out, a[i:]...)
	return append(out, b[j:]...)
}

func withPositions(ts []*token.Token) []*token.Token {
	var out []*token.Token
	for _, t := range ts {
		if t.Position != nil {
			out = append(out, t)
		}
	}
	return out
}
