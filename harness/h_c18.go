package main

import (
	iposition "github.com/z7zmey/php-parser/internal/position"
	"github.com/z7zmey/php-parser/internal/scanner"
	"github.com/z7zmey/php-parser/pkg/conf"
	"github.com/z7zmey/php-parser/pkg/position"
	"github.com/z7zmey/php-parser/pkg/token"
)

func init() {
	Register("H_C18_TokStep", H_C18_TokStep)
	Register("H_C18_PosStep", H_C18_PosStep)
	Register("H_C18_Base", H_C18_Base)
	Register("H_C18_Sizes", H_C18_Sizes)
}

// One inductive step of Get from an arbitrary pool state that satisfies the
// invariant  Inv: len(block) = L >= 1, 0 <= off <= L, "every pointer handed out so
// far is either &block[j] with j < off or lives in a block the pool no longer
// references".
//
// ghost = 0: no earlier pointer is looked at (covers off = 0);
// ghost = 1: q = &block[j], arbitrary 0 <= j < off (handed out from the current block);
// ghost = 2: q points into an older block (a separate allocation).
func H_C18_TokStep() {
	L := NondetInt()
	off := NondetInt()
	Assume(And(L >= 1, And(off >= 0, off <= L)))
	if m := ParamInt("maxL"); m > 0 {
		Assume(L <= m)
	}
	p := token.ZZPoolAt(L, off)
	ghost := ParamInt("ghost")
	var q *token.Token
	j := 0
	switch ghost {
	case 1:
		j = NondetInt()
		Assume(And(j >= 0, j < off))
		q = p.ZZAddr(j)
	case 2:
		L2 := NondetInt()
		j = NondetInt()
		Assume(And(L2 >= 1, And(j >= 0, j < L2)))
		if m := ParamInt("maxL"); m > 0 {
			Assume(L2 <= m)
		}
		q = token.ZZPoolAt(L2, L2).ZZAddr(j)
	}
	Cover("before-get")
	r := p.Get()
	Assert("C18:non-nil", r != nil)
	if ghost != 0 {
		Assert("C18:distinct-from-earlier", r != q)
	}
	off2, L2 := p.ZZOff(), p.ZZLen()
	// Inv is re-established: the block keeps a positive size, off stays in range ...
	Assert("C18:inv-block-size-positive", L2 >= 1)
	Assert("C18:inv-off-range", And(off2 >= 0, off2 <= L2))
	// ... the new pointer lies in the current block, below off (it is not &block[k]
	// for any k >= off) ...
	Assert("C18:inv-result-in-current-block", tokOwns(p, r))
	k := NondetInt()
	Assume(And(k >= 0, k < L2))
	if k >= off2 {
		Assert("C18:inv-result-below-off", r != p.ZZAddr(k))
	}
	// ... and an earlier pointer into the current block is still below off unless the
	// pool has moved on to a fresh block.
	if ghost == 1 && tokOwns(p, q) {
		Assert("C18:inv-earlier-still-below-off", j < off2)
	}
	Cover("after-get")
}

func H_C18_PosStep() {
	L := NondetInt()
	off := NondetInt()
	Assume(And(L >= 1, And(off >= 0, off <= L)))
	if m := ParamInt("maxL"); m > 0 {
		Assume(L <= m)
	}
	p := position.ZZPoolAt(L, off)
	ghost := ParamInt("ghost")
	var q *position.Position
	j := 0
	switch ghost {
	case 1:
		j = NondetInt()
		Assume(And(j >= 0, j < off))
		q = p.ZZAddr(j)
	case 2:
		L2 := NondetInt()
		j = NondetInt()
		Assume(And(L2 >= 1, And(j >= 0, j < L2)))
		if m := ParamInt("maxL"); m > 0 {
			Assume(L2 <= m)
		}
		q = position.ZZPoolAt(L2, L2).ZZAddr(j)
	}
	Cover("before-get")
	r := p.Get()
	Assert("C18:non-nil", r != nil)
	if ghost != 0 {
		Assert("C18:distinct-from-earlier", r != q)
	}
	off2, L2 := p.ZZOff(), p.ZZLen()
	// Inv is re-established: the block keeps a positive size, off stays in range ...
	Assert("C18:inv-block-size-positive", L2 >= 1)
	Assert("C18:inv-off-range", And(off2 >= 0, off2 <= L2))
	// ... the new pointer lies in the current block, below off (it is not &block[k]
	// for any k >= off) ...
	Assert("C18:inv-result-in-current-block", posOwns(p, r))
	k := NondetInt()
	Assume(And(k >= 0, k < L2))
	if k >= off2 {
		Assert("C18:inv-result-below-off", r != p.ZZAddr(k))
	}
	// ... and an earlier pointer into the current block is still below off unless the
	// pool has moved on to a fresh block.
	if ghost == 1 && posOwns(p, q) {
		Assert("C18:inv-earlier-still-below-off", j < off2)
	}
	Cover("after-get")
}

// Base case: NewPool(n) for every n >= 1 establishes Inv with off = 0.
func H_C18_Base() {
	n := NondetInt()
	Assume(n >= 1)
	if m := ParamInt("maxL"); m > 0 {
		Assume(n <= m)
	} else {
		Assume(n <= 1<<40)
	}
	tp := token.NewPool(n)
	Assert("C18:base-token", And(tp.ZZLen() == n, tp.ZZOff() == 0))
	pp := position.NewPool(n)
	Assert("C18:base-position", And(pp.ZZLen() == n, pp.ZZOff() == 0))
	Cover("base")
}

// The pools the library itself creates have a positive block size.
func H_C18_Sizes() {
	lex := scanner.NewLexer([]byte("<?php "), conf.Config{})
	tp, pp := lex.ZZPools()
	Assert("C18:lexer-token-pool-size", tp.ZZLen() >= 1)
	Assert("C18:lexer-position-pool-size", pp.ZZLen() >= 1)
	Assert("C18:builder-pool-size", iposition.NewBuilder().ZZPool().ZZLen() >= 1)
	Observe("tok", tp.ZZLen())
	Observe("pos", pp.ZZLen())
	Cover("sizes")
}

func tokOwns(p *token.Pool, t *token.Token) bool {
	if InEngine() {
		return SameArray(p.ZZAddr(0), t)
	}
	return p.ZZOwns(t)
}

func posOwns(p *position.Pool, t *position.Position) bool {
	if InEngine() {
		return SameArray(p.ZZAddr(0), t)
	}
	return p.ZZOwns(t)
}
