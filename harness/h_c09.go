package main

import (
	"github.com/z7zmey/php-parser/pkg/ast"
	"github.com/z7zmey/php-parser/pkg/conf"
	"github.com/z7zmey/php-parser/pkg/errors"
	"github.com/z7zmey/php-parser/pkg/parser"
	"github.com/z7zmey/php-parser/pkg/version"
)

func init() {
	Register("H_C09_Validate", H_C09_Validate)
	Register("H_C09_Parse", H_C09_Parse)
	Register("H_C09_Compare", H_C09_Compare)
	Register("H_C09_Trans", H_C09_Trans)
	Register("H_C09_New", H_C09_New)
	Register("H_C09_Default", H_C09_Default)
	Register("H_C09_Rel", H_C09_Rel)
}

// supported: the set the property names, written independently of the code.
func supported(ma, mi uint64) bool {
	return Or(And(ma == 5, mi <= 6), And(ma == 7, mi <= 4))
}

func assertIff(id string, got bool, want bool) {
	if got {
		Assert(id, want)
	} else {
		Assert(id, Not(want))
	}
}

func H_C09_Validate() {
	ma, mi := NondetUint64(), NondetUint64()
	v := &version.Version{Major: ma, Minor: mi}
	assertIff("C09:validate-iff-supported", v.Validate() == nil, supported(ma, mi))
	Cover("validated")
}

func parseV(in []byte, v *version.Version, withCb bool) *ParseOut {
	out := &ParseOut{}
	cfg := conf.Config{Version: v}
	if withCb {
		cfg.ErrorHandlerFunc = func(e *errors.Error) { out.Errs = append(out.Errs, e) }
	}
	out.Root, out.Err = parser.Parse(in, cfg)
	return out
}

// Parse accepts exactly the supported versions (same predicate as Validate), gives
// ErrVersionOutOfRange and no tree otherwise, for all 2^128 (major, minor) pairs.
func H_C09_Parse() {
	ma, mi := NondetUint64(), NondetUint64()
	in := []byte(ParamStr("src"))
	o := parseV(in, &version.Version{Major: ma, Minor: mi}, true)
	if o.Err != nil {
		Assert("C09:out-of-range-error-only-for-unsupported", Not(supported(ma, mi)))
		Assert("C09:out-of-range-error-is-ErrVersionOutOfRange", o.Err == parser.ErrVersionOutOfRange)
		Assert("C09:no-tree-with-out-of-range-error", IsNilVertex(o.Root))
		Cover("rejected")
	} else {
		Assert("C09:accepted-only-if-supported", supported(ma, mi))
		Assert("C09:tree-for-supported-version", !IsNilVertex(o.Root))
		Cover("accepted")
	}
	v := &version.Version{Major: ma, Minor: mi}
	assertIff("C09:parse-and-validate-agree", o.Err == nil, v.Validate() == nil)
}

func refCmp(a, b *version.Version) (lt, eq bool) {
	lt = Or(a.Major < b.Major, And(a.Major == b.Major, a.Minor < b.Minor))
	eq = And(a.Major == b.Major, a.Minor == b.Minor)
	return
}

func H_C09_Compare() {
	a := &version.Version{Major: NondetUint64(), Minor: NondetUint64()}
	b := &version.Version{Major: NondetUint64(), Minor: NondetUint64()}
	lt, eq := refCmp(a, b)
	gt := And(Not(lt), Not(eq))
	c := a.Compare(b)
	switch c {
	case -1:
		Assert("C09:compare-numeric-lexicographic", lt)
	case 0:
		Assert("C09:compare-numeric-lexicographic", eq)
	case 1:
		Assert("C09:compare-numeric-lexicographic", gt)
	default:
		Fail("C09:compare-range", "Compare returned a value outside {-1,0,1}")
	}
	Assert("C09:compare-antisymmetric", b.Compare(a) == -c)
	assertIff("C09:less", a.Less(b), lt)
	assertIff("C09:less-or-equal", a.LessOrEqual(b), Or(lt, eq))
	assertIff("C09:greater", a.Greater(b), gt)
	assertIff("C09:greater-or-equal", a.GreaterOrEqual(b), Or(gt, eq))
	e := &version.Version{Major: NondetUint64(), Minor: NondetUint64()}
	// InRange(b, e) <=> b <= a <= e
	lt2, eq2 := refCmp(a, e)
	assertIff("C09:in-range", a.InRange(b, e), And(Or(gt, eq), Or(lt2, eq2)))
	Cover("compared")
}

func H_C09_Trans() {
	a := &version.Version{Major: NondetUint64(), Minor: NondetUint64()}
	b := &version.Version{Major: NondetUint64(), Minor: NondetUint64()}
	c := &version.Version{Major: NondetUint64(), Minor: NondetUint64()}
	if a.Compare(b) <= 0 && b.Compare(c) <= 0 {
		Assert("C09:compare-transitive", a.Compare(c) <= 0)
		Cover("chain")
	}
	if a.Compare(b) == 0 {
		Assert("C09:compare-zero-iff-equal", And(a.Major == b.Major, a.Minor == b.Minor))
	}
}

// version.New(s) for every byte string s of length n: succeeds exactly for
// digits '.' digits and yields the decimal values.
func H_C09_New() {
	n := ParamInt("n")
	s := NondetBytes(n)
	ObserveBytes("in", s)
	v, err := version.New(string(s))
	dot := -1
	for i := 0; i < n; i++ {
		if s[i] == '.' {
			dot = i
			break
		}
	}
	wellFormed := dot > 0 && dot < n-1
	var ma, mi uint64
	if wellFormed {
		ok := true
		for i := 0; i < n; i++ {
			if i == dot {
				continue
			}
			ok = And(ok, And(s[i] >= '0', s[i] <= '9'))
			d := uint64(s[i] - '0')
			if i < dot {
				ma = ma*10 + d
			} else {
				mi = mi*10 + d
			}
		}
		if err == nil {
			Assert("C09:new-accepts-only-digits-dot-digits", ok)
		} else {
			Assert("C09:new-rejects-only-malformed", Not(ok))
		}
	} else {
		Assert("C09:new-rejects-malformed", err != nil)
	}
	if err == nil {
		Assert("C09:new-version-non-nil", v != nil)
		if v != nil && wellFormed {
			Assert("C09:new-decimal-values", And(v.Major == ma, v.Minor == mi))
		}
		Cover("new-ok")
	} else {
		Assert("C09:new-nil-on-error", v == nil)
		Cover("new-err")
	}
}

func treesAndErrsEqual(id string, a, b *ParseOut) {
	Assert(id+":err", (a.Err == nil) == (b.Err == nil))
	eq, diff := TreeEq(a.Root, b.Root, CmpTokens|CmpFreeFloat|CmpPositions)
	if diff != "" {
		Fail(id+":tree", diff)
	} else {
		Assert(id+":tree", eq)
	}
	Assert(id+":errors", ErrsEq(a.Errs, b.Errs))
}

// An omitted version means 7.4.
func H_C09_Default() {
	in, _ := BuildInput()
	ObserveBytes("in", in)
	a := parseV(in, nil, true)
	b := parseV(in, &version.Version{Major: 7, Minor: 4}, true)
	treesAndErrsEqual("C09:nil-version-is-7.4", a, b)
	Observe("nerr", len(a.Errs))
	Cover("default")
}

// class as the property text defines it: 1 = 5.0-5.6, 2 = 7.0-7.2, 3 = 7.3-7.4
func inClass(cl int, ma, mi uint64) bool {
	switch cl {
	case 1:
		return And(ma == 5, mi <= 6)
	case 2:
		return And(ma == 7, mi <= 2)
	}
	return And(ma == 7, And(mi >= 3, mi <= 4))
}

var classRep = [4][2]uint64{{0, 0}, {5, 6}, {7, 2}, {7, 4}}

// Every version of a class behaves like the class representative (hence any two
// versions of one class behave alike). The version is symbolic: the engine forks
// wherever the code under test compares it.
func H_C09_Rel() {
	in, _ := BuildInput()
	ObserveBytes("in", in)
	cl := 1 + Choose(3)
	ma, mi := NondetUint64(), NondetUint64()
	Assume(inClass(cl, ma, mi))
	Observe("class", cl)
	a := parseV(in, &version.Version{Major: classRep[cl][0], Minor: classRep[cl][1]}, true)
	b := parseV(in, &version.Version{Major: ma, Minor: mi}, true)
	treesAndErrsEqual("C09:same-class-same-result", a, b)
	Observe("nerr", len(a.Errs))
	Cover("rel")
}

var _ ast.Vertex
