package main

import (
	"github.com/z7zmey/php-parser/pkg/ast"
	"github.com/z7zmey/php-parser/pkg/visitor/traverser"
)

func init() {
	Register("H_C12_Kind", H_C12_Kind)
	Register("H_C12_Parsed", H_C12_Parsed)
	Register("H_C12_Nested", H_C12_Nested)
}

// H_C12_Nested: a node of kind k whose children are again nodes of kind k (two levels deep in
// one symbolically chosen child position, one level in another): a visitor method is re-entered
// while its own invocation is still pending. The visit sequence must be the pre-order of the
// tree (generated slot walker), every node exactly once.
func H_C12_Nested() {
	k := ParamInt("kind")
	synthFixed = true
	outer := BuildSynth(k, 1)
	var pos [][2]int // (slot, index in list or -1)
	for i, sl := range outer.Slots {
		switch sl.Kind {
		case SVertex:
			pos = append(pos, [2]int{i, -1})
		case SVertexList:
			for j := range sl.VL {
				pos = append(pos, [2]int{i, j})
			}
		}
	}
	if len(pos) == 0 {
		synthFixed = false
		Cover("nested")
		return
	}
	put := func(s *Synth, at [2]int, n ast.Vertex) {
		sl := s.Slots[at[0]]
		if at[1] < 0 {
			sl.V = n
		} else {
			sl.VL[at[1]] = n
		}
		SetSlot(s.N, at[0], sl)
		s.Slots[at[0]] = sl
	}
	a := pos[Choose(len(pos))]
	b := pos[Choose(len(pos))]
	mid := BuildSynth(k, 1)
	inner := BuildSynth(k, 1)
	other := BuildSynth(k, 1)
	synthFixed = false
	put(mid, b, inner.N) // two levels below outer through position a, then b
	put(outer, a, mid.N)
	if b != a {
		put(outer, b, other.N) // and one level through another position
	}
	var pre []ast.Vertex
	Walk(outer.N, nil, func(n, _ ast.Vertex) { pre = append(pre, n) })
	rec := &RecVisitor{}
	traverser.NewTraverser(rec).Traverse(outer.N)
	name := KindNames[k]
	Observe("visited", len(rec.Seq))
	if len(rec.Seq) != len(pre) {
		Fail("C12:nested-same-kind-visit-count", name)
	} else {
		for i := range pre {
			if !SamePtr(rec.Seq[i], pre[i]) {
				Fail("C12:nested-same-kind-pre-order", name)
				break
			}
		}
	}
	Cover("nested")
}

// H_C12_Kind: traversal of a synthetic node of kind k, every child slot present or
// absent, lists of length 0..2.
func H_C12_Kind() {
	k := ParamInt("kind")
	synthMarkerKind = Choose(4)
	s := BuildSynth(k, 1)
	synthMarkerKind = 0
	var want []ast.Vertex
	want = append(want, s.N)
	for _, sl := range s.Slots {
		switch sl.Kind {
		case SVertex:
			if !IsNilVertex(sl.V) {
				want = append(want, sl.V)
			}
		case SVertexList:
			want = append(want, sl.VL...)
		}
	}
	rec := &RecVisitor{}
	traverser.NewTraverser(rec).Traverse(s.N)
	name := KindNames[k]
	Observe("visited", len(rec.Seq))
	if len(rec.Seq) == 0 || !SamePtr(rec.Seq[0], s.N) {
		Fail("C12:parent-first", name)
		return
	}
	// exactly once, nothing else
	for _, w := range want {
		n := 0
		for _, g := range rec.Seq {
			if SamePtr(g, w) {
				n++
			}
		}
		if n == 0 {
			Fail("C12:child-not-visited", name+"."+slotOf(s, w))
		} else if n > 1 {
			Fail("C12:child-visited-twice", name+"."+slotOf(s, w))
		}
	}
	for _, g := range rec.Seq {
		found := false
		for _, w := range want {
			if SamePtr(g, w) {
				found = true
			}
		}
		if !found {
			Fail("C12:visited-something-not-in-tree", name)
		}
	}
	// order (declaration order of the slots, which C12's parsed-tree part and C05
	// confirm to be source order)
	if len(rec.Seq) == len(want) {
		for i := range want {
			if !SamePtr(rec.Seq[i], want[i]) {
				Fail("C12:children-in-source-order", name+"."+slotOf(s, want[i]))
				break
			}
		}
	}
	Cover("traversed")
}

func slotOf(s *Synth, n ast.Vertex) string {
	for _, sl := range s.Slots {
		if sl.Kind == SVertex && SamePtr(sl.V, n) {
			return sl.Name
		}
		if sl.Kind == SVertexList {
			for _, e := range sl.VL {
				if SamePtr(e, n) {
					return sl.Name
				}
			}
		}
	}
	return "?"
}

// H_C12_Parsed: on a parsed tree the visit sequence is the pre-order of the tree,
// positions never decrease along it among siblings, and no node object is reachable
// twice.
func H_C12_Parsed() {
	in, _ := BuildInput()
	major, minor := PickVersion()
	ObserveBytes("in", in)
	a := ParseWith(in, major, minor, true)
	if IsNilVertex(a.Root) {
		Cover("discarded:no-tree")
		return
	}
	var pre []ast.Vertex
	Walk(a.Root, nil, func(n, _ ast.Vertex) { pre = append(pre, n) })
	seenNode := map[ast.Vertex]bool{}
	for i := range pre {
		if seenNode[pre[i]] {
			Fail("C12:node-reachable-twice", kindName(KindOf(pre[i])))
			return
		}
		seenNode[pre[i]] = true
	}
	rec := &RecVisitor{}
	traverser.NewTraverser(rec).Traverse(a.Root)
	Observe("visited", len(rec.Seq))
	if len(rec.Seq) != len(pre) {
		Fail("C12:parsed-visit-count", "")
		return
	}
	for i := range pre {
		if !SamePtr(rec.Seq[i], pre[i]) {
			Fail("C12:parsed-preorder", kindName(KindOf(pre[i])))
			return
		}
	}
	if len(a.Errs) == 0 {
		// siblings in source order (error-free trees only: positions are then exact)
		Walk(a.Root, nil, func(n, _ ast.Vertex) {
			last := -1
			for _, sl := range SlotsOf(n) {
				var cs []ast.Vertex
				if sl.Kind == SVertex && !IsNilVertex(sl.V) {
					cs = []ast.Vertex{sl.V}
				} else if sl.Kind == SVertexList {
					cs = sl.VL
				}
				for _, c := range cs {
					p := c.GetPosition()
					if p == nil || p.StartPos < 0 {
						continue
					}
					if p.StartPos < last {
						Fail("C12:declaration-order-is-source-order", kindName(KindOf(n))+"."+sl.Name)
					}
					last = p.StartPos
				}
			}
		})
	}
	Cover("parsed")
}
