package main

import (
	"github.com/z7zmey/php-parser/pkg/ast"
	"github.com/z7zmey/php-parser/pkg/token"
	"github.com/z7zmey/php-parser/pkg/visitor/formatter"
)

func init() { Register("H_C17", H_C17) }

func formatAndPrint(root ast.Vertex) []byte {
	root.Accept(formatter.NewFormatter())
	return PrintTree(root).Bytes()
}

// H_C17: parse -> format -> print -> parse again.
func H_C17() {
	base := []byte(ParamStr("base"))
	in, _ := BuildInput()
	major, minor := PickVersion()
	ObserveBytes("in", in)
	a := ParseWith(in, major, minor, true)
	if len(a.Errs) != 0 || IsNilVertex(a.Root) {
		Cover("discarded:source-not-accepted")
		return
	}
	ref := ParseWith(in, major, minor, true) // untouched copy of the source tree
	out1 := formatAndPrint(a.Root)
	ObserveBytes("formatted", out1)
	b := ParseWith(out1, major, minor, true)
	if len(b.Errs) != 0 || IsNilVertex(b.Root) {
		msg := ""
		if len(b.Errs) > 0 {
			msg = b.Errs[0].Msg
		}
		fam := c17Family(ref.Root)
		if fam != htmlFamily {
			fam += ": " + coarseMsg(msg)
		}
		Fail("C17:formatted-source-parses", fam)
		return
	}
	eq, diff := TreeEq(b.Root, ref.Root, 0)
	if diff != "" {
		if c17Family(ref.Root) == htmlFamily {
			// the open/close-tag handling of formatter and printer is one known defect:
			// its consequences are keyed by the family, not by the slot that differs
			Fail("C17:same-structure-and-values", htmlFamily)
		} else if hasDanglingAltIf(ref.Root) {
			Fail("C17:same-structure-and-values", danglingAltIfFamily)
		} else {
			Fail("C17:same-structure-and-values", shortDiff(diff))
		}
	} else {
		Assert("C17:same-structure-and-values|"+firstNodeKinds(ref.Root), eq)
	}
	// idempotence
	out2 := formatAndPrint(b.Root)
	if len(out2) != len(out1) {
		if c17Family(ref.Root) == htmlFamily {
			// same defect as above: where HTML was wrapped into PHP mode and the result
			// happens to parse (the HTML starts with '#': a comment), the second pass differs
			Fail("C17:idempotent", htmlFamily)
		} else {
			Fail("C17:idempotent", stmtKindAtFirstDiff(b.Root, out1, out2))
		}
	} else {
		Assert("C17:idempotent|"+firstNodeKinds(ref.Root), BytesEq(out1, out2))
	}
	// canonical: the same text as for the unmodified snippet (trivia-independent). Presupposes
	// that the trivia left the program alone - where it did not (C08's subject, e.g. a comment
	// in the halt-compiler head) there is nothing to compare
	if len(base) > 0 {
		c := ParseWith(base, major, minor, true)
		if len(c.Errs) == 0 && !IsNilVertex(c.Root) {
			if _, d := TreeEq(ref.Root, c.Root, 0); d != "" {
				Cover("discarded:trivia-changes-the-program (C08)")
				Cover("formatted")
				return
			}
			out3 := formatAndPrint(c.Root)
			where := "trivia between " + tokName(ParamInt("prev")) + " and " + tokName(ParamInt("next"))
			if len(out3) != len(out1) {
				Fail("C17:canonical", where)
			} else {
				Assert("C17:canonical|"+where, BytesEq(out1, out3))
			}
		}
	}
	Cover("formatted")
}

// coarseMsg: class of an error message (the text itself may contain source bytes).
func coarseMsg(m string) string {
	if IsSymbolic(m) {
		if len(m) >= 12 && !IsSymbolic(m[:12]) && m[:12] == "syntax error" {
			return "syntax error"
		}
		return "error"
	}
	if pfx(m, "syntax error") {
		return "syntax error"
	}
	if pfx(m, "WARNING") {
		return "lexer warning"
	}
	return "error"
}

func pfx(s, p string) bool { return len(s) >= len(p) && s[:len(p)] == p }

// shortDiff keeps the last path segment of a tree difference: "…/Kind.Slot:what".
func shortDiff(d string) string {
	colon := len(d)
	for i := 0; i < len(d); i++ {
		if d[i] == ':' {
			colon = i
			break
		}
	}
	start := 0
	for i := 0; i < colon; i++ {
		if d[i] == '/' {
			start = i + 1
		}
	}
	return d[start:]
}

const htmlFamily = "program with inline HTML or a close tag"

const danglingAltIfFamily = "alternative-syntax if as the unbraced branch of an if that has elseif/else"

// hasDanglingAltIf: an if with elseif/else whose unbraced then-branch ends in an
// alternative-syntax if ("if (a) if (b): endif; else ..."): the inner if is closed by its endif,
// so the else belongs to the outer one; written with braces-less ordinary syntax it would not.
func hasDanglingAltIf(root ast.Vertex) bool {
	found := false
	Walk(root, nil, func(n, _ ast.Vertex) {
		if x, ok := n.(*ast.StmtIf); ok && (len(x.ElseIf) > 0 || x.Else != nil) && endsInAltIf(x.Stmt) {
			found = true
		}
		if x, ok := n.(*ast.StmtElseIf); ok && endsInAltIf(x.Stmt) {
			found = true
		}
	})
	return found
}

func endsInAltIf(s ast.Vertex) bool {
	switch x := s.(type) {
	case *ast.StmtIf:
		if x.ColonTkn != nil {
			return true
		}
		if x.Else != nil {
			if e, ok := x.Else.(*ast.StmtElse); ok {
				return endsInAltIf(e.Stmt)
			}
			return false
		}
		if len(x.ElseIf) > 0 {
			if e, ok := x.ElseIf[len(x.ElseIf)-1].(*ast.StmtElseIf); ok {
				return endsInAltIf(e.Stmt)
			}
			return false
		}
		return endsInAltIf(x.Stmt)
	case *ast.StmtWhile:
		return x.ColonTkn == nil && endsInAltIf(x.Stmt)
	case *ast.StmtFor:
		return x.ColonTkn == nil && endsInAltIf(x.Stmt)
	case *ast.StmtForeach:
		return x.ColonTkn == nil && endsInAltIf(x.Stmt)
	}
	return false
}

// c17Family: coarse class of the program for "does not parse" signatures: the three
// constructs the formatter is known to mishandle, else the first statement's kinds.
func c17Family(root ast.Vertex) string {
	html, heredoc, dollarCurly := false, false, false
	Walk(root, nil, func(n, _ ast.Vertex) {
		switch x := n.(type) {
		case *ast.StmtInlineHtml:
			html = true
		case *ast.StmtNop:
			if x.SemiColonTkn != nil && len(x.SemiColonTkn.Value) >= 2 && x.SemiColonTkn.Value[0] == '?' {
				html = true
			}
		case *ast.StmtEcho:
			if x.EchoTkn != nil && len(x.EchoTkn.Value) == 3 && x.EchoTkn.Value[0] == '<' {
				html = true
			}
		case *ast.ScalarHeredoc:
			heredoc = true
		case *ast.ScalarEncapsedStringVar:
			dollarCurly = true
		}
	})
	switch {
	case html:
		return htmlFamily
	case dollarCurly:
		return "string with a ${ } part"
	case heredoc:
		return "program with a heredoc"
	}
	return firstNodeKinds(root)
}

// stmtKindAtFirstDiff: kind of the innermost statement of root (a tree with positions
// for text a) that covers the first byte at which a and b differ.
func stmtKindAtFirstDiff(root ast.Vertex, a, b []byte) string {
	off := 0
	for off < len(a) && off < len(b) && a[off] == b[off] {
		off++
	}
	best, bestLen := "?", 1<<30
	Walk(root, nil, func(n, _ ast.Vertex) {
		p := n.GetPosition()
		if p == nil || p.StartPos < 0 || p.EndPos < 0 {
			return
		}
		k := kindName(KindOf(n))
		if len(k) < 4 || k[:4] != "Stmt" {
			return
		}
		if p.StartPos <= off && off <= p.EndPos && p.EndPos-p.StartPos < bestLen {
			best, bestLen = k, p.EndPos-p.StartPos
		}
	})
	return best
}

// firstNodeKinds: the kinds of the first statement and its first child, as a coarse
// description of the program shape for signatures.
func firstNodeKinds(root ast.Vertex) string {
	r, ok := root.(*ast.Root)
	if !ok || len(r.Stmts) == 0 {
		return "empty"
	}
	s := kindName(KindOf(r.Stmts[0]))
	for _, sl := range SlotsOf(r.Stmts[0]) {
		if sl.Kind == SVertex && !IsNilVertex(sl.V) {
			return s + "/" + kindName(KindOf(sl.V))
		}
		if sl.Kind == SVertexList && len(sl.VL) > 0 {
			return s + "/" + kindName(KindOf(sl.VL[0]))
		}
	}
	return s
}

func tokName(id int) string {
	if id < 0 {
		return "end of input"
	}
	if id == 0 {
		return "open tag"
	}
	return token.ID(id).String()
}
