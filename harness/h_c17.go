package main

import (
	"github.com/z7zmey/php-parser/pkg/ast"
	"github.com/z7zmey/php-parser/pkg/token"
	"github.com/z7zmey/php-parser/pkg/visitor/formatter"
)

func init() { Register("H_C17", H_C17) }

func formatAndPrint(root ast.Vertex) []byte {
	root.Accept(formatter.NewFormatter())
	return PrintTree(root).Bytes()
}

// H_C17: parse -> format -> print -> parse again.
func H_C17() {
	base := []byte(ParamStr("base"))
	in, _ := BuildInput()
	major, minor := PickVersion()
	ObserveBytes("in", in)
	a := ParseWith(in, major, minor, true)
	if len(a.Errs) != 0 || IsNilVertex(a.Root) {
		Cover("discarded:source-not-accepted")
		return
	}
	ref := ParseWith(in, major, minor, true) // untouched copy of the source tree
	out1 := formatAndPrint(a.Root)
	ObserveBytes("formatted", out1)
	b := ParseWith(out1, major, minor, true)
	if len(b.Errs) != 0 || IsNilVertex(b.Root) {
		msg := ""
		if len(b.Errs) > 0 {
			msg = b.Errs[0].Msg
		}
		Fail("C17:formatted-source-parses", firstNodeKinds(ref.Root)+": "+msg)
		return
	}
	eq, diff := TreeEq(b.Root, ref.Root, 0)
	if diff != "" {
		Fail("C17:same-structure-and-values", diff)
	} else {
		Assert("C17:same-structure-and-values|"+firstNodeKinds(ref.Root), eq)
	}
	// idempotence
	out2 := formatAndPrint(b.Root)
	if len(out2) != len(out1) {
		Fail("C17:idempotent", firstNodeKinds(ref.Root))
	} else {
		Assert("C17:idempotent|"+firstNodeKinds(ref.Root), BytesEq(out1, out2))
	}
	// canonical: the same text as for the unmodified snippet (trivia-independent)
	if len(base) > 0 {
		c := ParseWith(base, major, minor, true)
		if len(c.Errs) == 0 && !IsNilVertex(c.Root) {
			out3 := formatAndPrint(c.Root)
			where := "trivia between " + tokName(ParamInt("prev")) + " and " + tokName(ParamInt("next"))
			if len(out3) != len(out1) {
				Fail("C17:canonical", where)
			} else {
				Assert("C17:canonical|"+where, BytesEq(out1, out3))
			}
		}
	}
	Cover("formatted")
}

// firstNodeKinds: the kinds of the first statement and its first child, as a coarse
// description of the program shape for signatures.
func firstNodeKinds(root ast.Vertex) string {
	r, ok := root.(*ast.Root)
	if !ok || len(r.Stmts) == 0 {
		return "empty"
	}
	s := kindName(KindOf(r.Stmts[0]))
	for _, sl := range SlotsOf(r.Stmts[0]) {
		if sl.Kind == SVertex && !IsNilVertex(sl.V) {
			return s + "/" + kindName(KindOf(sl.V))
		}
		if sl.Kind == SVertexList && len(sl.VL) > 0 {
			return s + "/" + kindName(KindOf(sl.VL[0]))
		}
	}
	return s
}

func tokName(id int) string {
	if id < 0 {
		return "end of input"
	}
	if id == 0 {
		return "open tag"
	}
	return token.ID(id).String()
}
