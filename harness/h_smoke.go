package main

import (
	"github.com/z7zmey/php-parser/pkg/conf"
	"github.com/z7zmey/php-parser/pkg/errors"
	"github.com/z7zmey/php-parser/pkg/parser"
	"github.com/z7zmey/php-parser/pkg/version"
)

func init() { Register("H_Smoke", H_Smoke) }

// H_Smoke: "<?php " + K symbolic bytes through the whole parser.
func H_Smoke() {
	k := ParamInt("K")
	pfx := ParamStr("prefix")
	in := append([]byte(pfx), NondetBytes(k)...)
	nerr := 0
	cfg := conf.Config{
		Version:          &version.Version{Major: 7, Minor: 4},
		ErrorHandlerFunc: func(e *errors.Error) { nerr++ },
	}
	root, err := parser.Parse(in, cfg)
	ObserveBytes("in", in)
	Observe("nerr", nerr)
	Observe("rootnil", B2I(root == nil))
	Observe("errnil", B2I(err == nil))
}
