package main

import (
	"github.com/z7zmey/php-parser/pkg/ast"
	"github.com/z7zmey/php-parser/pkg/position"
	"github.com/z7zmey/php-parser/pkg/token"
	"github.com/z7zmey/php-parser/pkg/visitor"
	"github.com/z7zmey/php-parser/pkg/visitor/nsresolver"
	"github.com/z7zmey/php-parser/pkg/visitor/traverser"
)

func init() {
	Register("H_C13", H_C13)
	Register("H_C11", H_C11)
}

// ---- deep snapshot of a tree (object identities and every stored value) -------------

type SnapTok struct {
	T      *token.Token
	ID     token.ID
	Val    []byte
	ValNil bool
	Pos    *position.Position
	PV     [4]int
	FF     []*SnapTok
	FFNil  bool
}

type SnapSlot struct {
	Kind  int
	V     *SnapNode
	VL    []*SnapNode
	VLNil bool
	T     *SnapTok
	TL    []*SnapTok
	TLNil bool
	B     []byte
	BNil  bool
	P     *position.Position
	PV    [4]int
}

type SnapNode struct {
	N     ast.Vertex
	Kind  int
	Slots []SnapSlot
}

func posVals(p *position.Position) [4]int {
	if p == nil {
		return [4]int{}
	}
	return [4]int{p.StartLine, p.EndLine, p.StartPos, p.EndPos}
}

func copyBytes(b []byte) []byte {
	c := make([]byte, len(b))
	copy(c, b)
	return c
}

func snapTok(t *token.Token) *SnapTok {
	if t == nil {
		return nil
	}
	s := &SnapTok{T: t, ID: t.ID, Val: copyBytes(t.Value), ValNil: t.Value == nil, Pos: t.Position, PV: posVals(t.Position), FFNil: t.FreeFloating == nil}
	for _, f := range t.FreeFloating {
		s.FF = append(s.FF, snapTok(f))
	}
	return s
}

func snapNode(n ast.Vertex) *SnapNode {
	if IsNilVertex(n) {
		return nil
	}
	s := &SnapNode{N: n, Kind: KindOf(n)}
	for _, sl := range SlotsOf(n) {
		ss := SnapSlot{Kind: sl.Kind}
		switch sl.Kind {
		case SVertex:
			ss.V = snapNode(sl.V)
		case SVertexList:
			ss.VLNil = sl.VL == nil
			for _, c := range sl.VL {
				ss.VL = append(ss.VL, snapNode(c))
			}
		case SToken:
			ss.T = snapTok(sl.T)
		case STokenList:
			ss.TLNil = sl.TL == nil
			for _, t := range sl.TL {
				ss.TL = append(ss.TL, snapTok(t))
			}
		case SBytes:
			ss.B, ss.BNil = copyBytes(sl.B), sl.B == nil
		case SPosition:
			ss.P, ss.PV = sl.P, posVals(sl.P)
		}
		s.Slots = append(s.Slots, ss)
	}
	return s
}

type snapCmp struct {
	eq   bool
	diff string
}

func (c *snapCmp) fail(s string) {
	if c.diff == "" {
		c.diff = s
	}
}

func (c *snapCmp) tok(s *SnapTok, t *token.Token, where string) {
	if s == nil || t == nil {
		if (s == nil) != (t == nil) {
			c.fail(where + ": token added or removed")
		}
		return
	}
	if s.T != t {
		c.fail(where + ": token object replaced")
		return
	}
	if s.ID != t.ID || s.ValNil != (t.Value == nil) || len(s.Val) != len(t.Value) {
		c.fail(where + ": token id/value changed")
		return
	}
	c.eq = And(c.eq, BytesEq(s.Val, t.Value))
	if s.Pos != t.Position || s.PV != posVals(t.Position) {
		c.fail(where + ": token position changed")
	}
	if s.FFNil != (t.FreeFloating == nil) || len(s.FF) != len(t.FreeFloating) {
		c.fail(where + ": free-floating list changed")
		return
	}
	for i := range s.FF {
		c.tok(s.FF[i], t.FreeFloating[i], where+".FreeFloating")
	}
}

func (c *snapCmp) node(s *SnapNode, n ast.Vertex, where string) {
	if s == nil || IsNilVertex(n) {
		if (s == nil) != IsNilVertex(n) {
			c.fail(where + ": child added or removed")
		}
		return
	}
	if !SamePtr(s.N, n) {
		c.fail(where + ": node object replaced")
		return
	}
	w := where + "/" + kindName(s.Kind)
	slots := SlotsOf(n)
	for i, sl := range slots {
		ss := s.Slots[i]
		switch sl.Kind {
		case SVertex:
			c.node(ss.V, sl.V, w+"."+sl.Name)
		case SVertexList:
			if ss.VLNil != (sl.VL == nil) || len(ss.VL) != len(sl.VL) {
				c.fail(w + "." + sl.Name + ": list changed")
				continue
			}
			for j := range sl.VL {
				c.node(ss.VL[j], sl.VL[j], w+"."+sl.Name)
			}
		case SToken:
			c.tok(ss.T, sl.T, w+"."+sl.Name)
		case STokenList:
			if ss.TLNil != (sl.TL == nil) || len(ss.TL) != len(sl.TL) {
				c.fail(w + "." + sl.Name + ": token list changed")
				continue
			}
			for j := range sl.TL {
				c.tok(ss.TL[j], sl.TL[j], w+"."+sl.Name)
			}
		case SBytes:
			if ss.BNil != (sl.B == nil) || len(ss.B) != len(sl.B) {
				c.fail(w + "." + sl.Name + ": value changed")
				continue
			}
			c.eq = And(c.eq, BytesEq(ss.B, sl.B))
		case SPosition:
			if ss.P != sl.P || ss.PV != posVals(sl.P) {
				c.fail(w + ": position changed")
			}
		}
	}
}

var staticBase int

func assertUnchanged(op string, snap *SnapNode, root ast.Vertex, in, orig []byte) {
	c := &snapCmp{eq: true}
	c.node(snap, root, "")
	if c.diff != "" {
		Fail("C13:tree-unchanged-after-"+op, c.diff)
	} else {
		Assert("C13:tree-unchanged-after-"+op, c.eq)
	}
	Assert("C13:source-unchanged-after-"+op, BytesEq(in, orig))
	if n := LibStaticWrites(); n != staticBase {
		Fail("C13:static-state-unchanged-after-"+op, StaticWriteInfo(staticBase))
		staticBase = n
	}
}

// ---- the four operations, each returning a comparable result -------------------------

type resolved struct {
	idx  []int
	name []string
}

func resolveTree(root ast.Vertex) *resolved {
	r := nsresolver.NewNamespaceResolver()
	traverser.NewTraverser(r).Traverse(root)
	out := &resolved{}
	i := 0
	Walk(root, nil, func(n, _ ast.Vertex) {
		if s, ok := r.ResolvedNames[n]; ok {
			out.idx = append(out.idx, i)
			out.name = append(out.name, s)
		}
		i++
	})
	if len(out.idx) != len(r.ResolvedNames) {
		Fail("C13:resolved-names-keyed-by-tree-nodes", "")
	}
	return out
}

func resolvedEq(a, b *resolved) bool {
	if len(a.idx) != len(b.idx) {
		return false
	}
	eq := true
	for i := range a.idx {
		if a.idx[i] != b.idx[i] || len(a.name[i]) != len(b.name[i]) {
			return false
		}
		eq = And(eq, a.name[i] == b.name[i])
	}
	return eq
}

func traverseTree(root ast.Vertex) []ast.Vertex {
	rec := &RecVisitor{}
	traverser.NewTraverser(rec).Traverse(root)
	return rec.Seq
}

func seqEq(a, b []ast.Vertex) bool {
	if len(a) != len(b) {
		return false
	}
	for i := range a {
		if !SamePtr(a[i], b[i]) {
			return false
		}
	}
	return true
}

// H_C13: every operation leaves the tree, the source buffer and static memory as
// they were (one step from an arbitrary parsed tree = the inductive step for
// histories of any length), and a second round of the operations in the opposite
// order reproduces the first round's outputs.
func H_C13() {
	in, _ := BuildInput()
	major, minor := PickVersion()
	orig := copyBytes(in)
	ObserveBytes("in", in)
	a := ParseWith(in, major, minor, true)
	Observe("nerr", len(a.Errs))
	if IsNilVertex(a.Root) {
		Cover("discarded:no-tree")
		return
	}
	withResolve := len(a.Errs) == 0
	snap := snapNode(a.Root)
	staticBase = LibStaticWrites()

	p1 := PrintTree(a.Root).Bytes()
	assertUnchanged("print", snap, a.Root, in, orig)
	traverser.NewTraverser(&visitor.Null{}).Traverse(a.Root)
	t1 := traverseTree(a.Root)
	assertUnchanged("traverse", snap, a.Root, in, orig)
	var r1 *resolved
	if withResolve {
		r1 = resolveTree(a.Root)
		assertUnchanged("resolve", snap, a.Root, in, orig)
	}
	d1 := dumpTree(a.Root, true, true)
	assertUnchanged("dump", snap, a.Root, in, orig)
	d1b := dumpTree(a.Root, false, false)
	assertUnchanged("dump", snap, a.Root, in, orig)
	// second round, opposite order
	if withResolve {
		Assert("C13:resolve-output-stable", resolvedEq(r1, resolveTree(a.Root)))
	}
	Assert("C13:traverse-output-stable", seqEq(t1, traverseTree(a.Root)))
	Assert("C13:dump-output-stable", d1b == dumpTree(a.Root, false, false))
	Assert("C13:dump-output-stable", d1 == dumpTree(a.Root, true, true))
	Assert("C13:print-output-stable", BytesEq(p1, PrintTree(a.Root).Bytes()))
	assertUnchanged("second-round", snap, a.Root, in, orig)
	Cover("operated")
}

// sharedObject: a node, token or position object reachable from both trees ("" if none).
func sharedObject(a, b ast.Vertex) string {
	nodes := map[ast.Vertex]bool{}
	toks := map[*token.Token]bool{}
	poss := map[*position.Position]bool{}
	Walk(a, nil, func(n, _ ast.Vertex) {
		nodes[n] = true
		if p := n.GetPosition(); p != nil {
			poss[p] = true
		}
	})
	for _, t := range TokensOf(a, nil, true) {
		toks[t] = true
		if t.Position != nil {
			poss[t.Position] = true
		}
	}
	what := ""
	Walk(b, nil, func(n, _ ast.Vertex) {
		if what != "" {
			return
		}
		if nodes[n] {
			what = "node " + kindName(KindOf(n))
		} else if p := n.GetPosition(); p != nil && poss[p] {
			what = "position of " + kindName(KindOf(n))
		}
	})
	if what != "" {
		return what
	}
	for _, t := range TokensOf(b, nil, true) {
		if toks[t] {
			return "token " + t.ID.String()
		}
		if t.Position != nil && poss[t.Position] {
			return "position of token " + t.ID.String()
		}
	}
	return ""
}

// H_C11: the premise that makes schedules irrelevant - every pipeline writes only
// memory it allocated itself (no library write to static memory) - plus
// determinism of parsing (same input twice => identical trees and errors).
func H_C11() {
	in, _ := BuildInput()
	major, minor := PickVersion()
	ObserveBytes("in", in)
	a := ParseWith(in, major, minor, true)
	if LibStaticWrites() != 0 {
		Fail("C11:parse-writes-shared-memory", StaticWriteInfo(0))
	}
	b := ParseWith(in, major, minor, true)
	Assert("C11:same-input-same-errors", ErrsEq(a.Errs, b.Errs))
	eq, diff := TreeEq(a.Root, b.Root, CmpTokens|CmpFreeFloat|CmpPositions)
	if diff != "" {
		Fail("C11:same-input-same-tree", diff)
	} else {
		Assert("C11:same-input-same-tree", eq)
	}
	base := LibStaticWrites()
	if !IsNilVertex(a.Root) && !IsNilVertex(b.Root) {
		// no memory is shared between the two results
		if what := sharedObject(a.Root, b.Root); what != "" {
			Fail("C11:results-share-objects", what)
		}
		p1 := PrintTree(a.Root).Bytes()
		d1 := dumpTree(a.Root, true, true)
		traverseTree(a.Root)
		if len(a.Errs) == 0 {
			resolveTree(a.Root)
		}
		if n := LibStaticWrites(); n != base {
			Fail("C11:visitor-writes-shared-memory", StaticWriteInfo(base))
		}
		Assert("C11:print-deterministic", BytesEq(p1, PrintTree(b.Root).Bytes()))
		Assert("C11:dump-deterministic", d1 == dumpTree(b.Root, true, true))
		Cover("pipelines")
	}
	Observe("nerr", len(a.Errs))
}
