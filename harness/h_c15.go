package main

import (
	"github.com/z7zmey/php-parser/pkg/token"
	"github.com/z7zmey/php-parser/pkg/visitor/printer"
)

func init() {
	Register("H_C15_Kind", H_C15_Kind)
}

func isMarker(b []byte) bool {
	return len(b) >= 2 && b[0] == '[' && b[len(b)-1] == ']'
}

func tokMarkers(out []string, t *token.Token) []string {
	for _, f := range t.FreeFloating {
		out = append(out, string(f.Value))
	}
	return append(out, string(t.Value))
}

// H_C15_Kind: print a synthetic node of kind k (printer in PHP state); every present
// token contributes its free-floating text then its value exactly once, every
// present child exactly once, separators interleave with list items, all in slot
// order; everything else in the output is a constant, at most one per absent token.
func H_C15_Kind() {
	k := ParamInt("kind")
	synthMaxList = 3
	s := BuildSynth(k, 3)
	synthMaxList = 2
	name := KindNames[k]
	var want []string
	absent := 0
	for i := 0; i < len(s.Slots); i++ {
		sl := s.Slots[i]
		switch sl.Kind {
		case SVertex:
			if !IsNilVertex(sl.V) {
				want = append(want, "[fn"+itoa(i)+"]", "[n"+itoa(i)+"]")
			}
		case SVertexList:
			var seps []*token.Token
			if i+1 < len(s.Slots) && s.Slots[i+1].Kind == STokenList {
				seps = s.Slots[i+1].TL
			}
			for j := range sl.VL {
				want = append(want, "[fn"+itoa(i)+"."+itoa(j)+"]", "[n"+itoa(i)+"."+itoa(j)+"]")
				if j < len(seps) {
					want = tokMarkers(want, seps[j])
				} else if j < len(sl.VL)-1 {
					absent++
				}
			}
		case SToken:
			if sl.T != nil {
				want = tokMarkers(want, sl.T)
			} else {
				absent++
			}
		}
	}
	w := &Chunks{}
	s.N.Accept(printer.NewPrinter(w).WithState(printer.PrinterStatePHP))
	var got []string
	consts := 0
	for _, c := range w.list {
		if isMarker(c) {
			got = append(got, string(c))
		} else if len(c) == 1 && c[0] == ' ' {
			// the separating space the printer may add between two word characters
		} else {
			consts++
		}
	}
	Observe("chunks", len(w.list))
	// each expected marker exactly once
	for _, m := range want {
		n := 0
		for _, g := range got {
			if g == m {
				n++
			}
		}
		if n == 0 {
			Fail("C15:not-printed", name+" "+slotOfMarker(s, m))
		} else if n > 1 {
			Fail("C15:printed-twice", name+" "+slotOfMarker(s, m))
		}
	}
	for _, g := range got {
		found := false
		for _, m := range want {
			if g == m {
				found = true
			}
		}
		if !found {
			Fail("C15:printed-something-not-in-node", name+" "+g)
		}
	}
	if len(got) == len(want) {
		for i := range want {
			if got[i] != want[i] {
				Fail("C15:order", name+" "+slotOfMarker(s, want[i]))
				break
			}
		}
	}
	if consts > absent {
		Fail("C15:more-constants-than-absent-tokens", name)
	}
	// separators interleave with list items: between two consecutive items of a list
	// that has a separator slot there is a separator token or a substituted lexeme
	for i := 0; i+1 < len(s.Slots); i++ {
		sl := s.Slots[i]
		if sl.Kind != SVertexList || s.Slots[i+1].Kind != STokenList {
			continue
		}
		for j := 0; j+1 < len(sl.VL); j++ {
			from, to := -1, -1
			for ci, c := range w.list {
				if string(c) == "[n"+itoa(i)+"."+itoa(j)+"]" {
					from = ci
				}
				if string(c) == "[fn"+itoa(i)+"."+itoa(j+1)+"]" {
					to = ci
				}
			}
			if from < 0 || to < 0 || to < from {
				continue // reported above
			}
			sep := false
			for ci := from + 1; ci < to; ci++ {
				c := w.list[ci]
				if !(len(c) == 1 && c[0] == ' ') {
					sep = true
				}
			}
			if !sep {
				Fail("C15:list-items-not-separated", name+" "+sl.Name)
			}
		}
	}
	Cover("printed")
}

// slotOfMarker maps "[t3.1]" / "[ft3]" / "[n2]" back to a slot name.
func slotOfMarker(s *Synth, m string) string {
	i := 1
	pre := ""
	for i < len(m) && (m[i] < '0' || m[i] > '9') {
		pre += string(m[i])
		i++
	}
	n := 0
	for i < len(m) && m[i] >= '0' && m[i] <= '9' {
		n = n*10 + int(m[i]-'0')
		i++
	}
	if n < len(s.Slots) {
		if pre == "ft" || pre == "fn" {
			return s.Slots[n].Name + " (free-floating)"
		}
		return s.Slots[n].Name
	}
	return m
}
