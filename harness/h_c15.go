package main

import (
	"github.com/z7zmey/php-parser/pkg/ast"
	"github.com/z7zmey/php-parser/pkg/token"
	"github.com/z7zmey/php-parser/pkg/visitor/printer"
)

func init() {
	Register("H_C15_Kind", H_C15_Kind)
	Register("H_C15_Lexemes", H_C15_Lexemes)
}

func lowerASCII(b []byte) string {
	r := make([]byte, len(b))
	for i, c := range b {
		if c >= 'A' && c <= 'Z' {
			c += 'a' - 'A'
		}
		r[i] = c
	}
	return string(r)
}

// H_C15_Lexemes (native helper for the driver): which texts the parser of the current tree
// stores in which token slot - "Kind.Slot=text" for every token slot and separator list of a
// parsed program. This is the reference for "the construct's canonical lexeme": what the
// printer substitutes for an absent token must be a text parsing puts into that very slot.
func H_C15_Lexemes() {
	in := []byte(ParamStr("src"))
	major, minor := PickVersion()
	a := ParseWith(in, major, minor, true)
	Observe("nerr", len(a.Errs))
	if IsNilVertex(a.Root) || len(a.Errs) != 0 {
		return
	}
	seen := map[string]bool{}
	out := ""
	note := func(k int, slot string, t *token.Token) {
		if t == nil || len(t.Value) == 0 || len(t.Value) > 16 {
			return
		}
		e := KindNames[k] + "." + slot + "=" + lowerASCII(t.Value)
		for i := 0; i < len(t.Value); i++ {
			if t.Value[i] < 0x20 || t.Value[i] >= 0x7f {
				return // not a lexeme of the language's punctuation or keywords
			}
		}
		if !seen[e] {
			seen[e] = true
			out += e + "\x01"
		}
	}
	Walk(a.Root, nil, func(n, _ ast.Vertex) {
		k := KindOf(n)
		for _, sl := range SlotsOf(n) {
			switch sl.Kind {
			case SToken:
				note(k, sl.Name, sl.T)
			case STokenList:
				for _, t := range sl.TL {
					note(k, sl.Name, t)
				}
			}
		}
	})
	ObserveStr("lex", out)
}

// allowedLexemes parses the driver's "Slot=a\x02b\x01Slot2=c" parameter.
func allowedLexemes() map[string][]string {
	m := map[string][]string{}
	p := ParamStr("lex")
	cur := ""
	flush := func() {
		if cur == "" {
			return
		}
		eq := -1
		for i := 0; i < len(cur); i++ {
			if cur[i] == '=' {
				eq = i
				break
			}
		}
		if eq > 0 {
			slot := cur[:eq]
			w := ""
			for i := eq + 1; i <= len(cur); i++ {
				if i == len(cur) || cur[i] == 2 {
					m[slot] = append(m[slot], w)
					w = ""
				} else {
					w += string(cur[i])
				}
			}
		}
		cur = ""
	}
	for i := 0; i < len(p); i++ {
		if p[i] == 1 {
			flush()
		} else {
			cur += string(p[i])
		}
	}
	flush()
	return m
}

func isMarker(b []byte) bool {
	return len(b) >= 2 && b[0] == '[' && b[len(b)-1] == ']'
}

func tokMarkers(out []string, t *token.Token) []string {
	for _, f := range t.FreeFloating {
		out = append(out, string(f.Value))
	}
	return append(out, string(t.Value))
}

// H_C15_Kind: print a synthetic node of kind k (printer in PHP state); every present
// token contributes its free-floating text then its value exactly once, every
// present child exactly once, separators interleave with list items, all in slot
// order; everything else in the output is a constant, at most one per absent token.
func H_C15_Kind() {
	k := ParamInt("kind")
	synthMaxList = 3
	s := BuildSynth(k, 3)
	synthMaxList = 2
	name := KindNames[k]
	var want []string
	absent := 0
	var absentTok []string  // names of the absent single-token slots
	var absentSeps []string // names of separator lists with a missing separator
	for i := 0; i < len(s.Slots); i++ {
		sl := s.Slots[i]
		switch sl.Kind {
		case SVertex:
			if !IsNilVertex(sl.V) {
				want = append(want, "[fn"+itoa(i)+"]", "[n"+itoa(i)+"]")
			}
		case SVertexList:
			var seps []*token.Token
			if i+1 < len(s.Slots) && s.Slots[i+1].Kind == STokenList {
				seps = s.Slots[i+1].TL
			}
			for j := range sl.VL {
				want = append(want, "[fn"+itoa(i)+"."+itoa(j)+"]", "[n"+itoa(i)+"."+itoa(j)+"]")
				if j < len(seps) {
					want = tokMarkers(want, seps[j])
				} else if j < len(sl.VL)-1 {
					absent++
					if i+1 < len(s.Slots) && s.Slots[i+1].Kind == STokenList {
						absentSeps = append(absentSeps, s.Slots[i+1].Name)
					}
				}
			}
		case SToken:
			if sl.T != nil {
				want = tokMarkers(want, sl.T)
			} else {
				absent++
				absentTok = append(absentTok, sl.Name)
			}
		}
	}
	w := &Chunks{}
	s.N.Accept(printer.NewPrinter(w).WithState(printer.PrinterStatePHP))
	var got []string
	consts := 0
	var lexemes []string // substituted texts other than node values
	for _, c := range w.list {
		if isMarker(c) {
			got = append(got, string(c))
		} else if len(c) == 1 && c[0] == ' ' {
			// the separating space the printer may add between two word characters
		} else {
			consts++
			if !(len(c) >= 2 && c[0] == '(' && c[1] == 'v') {
				lexemes = append(lexemes, lowerASCII(c))
			}
		}
	}
	// canonical lexemes: what stands in for an absent token is a text the parser stores in that
	// slot of that construct (learned from parsed programs on this run), never another one.
	// Decidable per slot when exactly one token slot (or the separators of one list) is absent.
	allowed := allowedLexemes()
	var slotSet []string
	slotName := ""
	if len(absentTok) == 1 && len(absentSeps) == 0 {
		slotName = absentTok[0]
	} else if len(absentTok) == 0 && len(absentSeps) > 0 {
		same := true
		for _, a := range absentSeps {
			same = same && a == absentSeps[0]
		}
		if same {
			slotName = absentSeps[0]
		}
	}
	if slotName != "" {
		slotSet = allowed[slotName]
		if len(slotSet) == 0 {
			Cover("lexeme-unconstrained:" + name + "." + slotName)
		}
		for _, lx := range lexemes {
			ok := len(slotSet) == 0
			for _, a := range slotSet {
				if a == lx {
					ok = true
				}
			}
			if !ok {
				Fail("C15:substituted-lexeme-is-not-one-of-this-slot", name+"."+slotName+" prints \""+lx+"\"")
			}
		}
		Cover("lexeme-checked")
	}
	Observe("chunks", len(w.list))
	// each expected marker exactly once
	for _, m := range want {
		n := 0
		for _, g := range got {
			if g == m {
				n++
			}
		}
		if n == 0 {
			Fail("C15:not-printed", name+" "+slotOfMarker(s, m))
		} else if n > 1 {
			Fail("C15:printed-twice", name+" "+slotOfMarker(s, m))
		}
	}
	for _, g := range got {
		found := false
		for _, m := range want {
			if g == m {
				found = true
			}
		}
		if !found {
			Fail("C15:printed-something-not-in-node", name+" "+g)
		}
	}
	if len(got) == len(want) {
		for i := range want {
			if got[i] != want[i] {
				Fail("C15:order", name+" "+slotOfMarker(s, want[i]))
				break
			}
		}
	}
	if consts > absent {
		Fail("C15:more-constants-than-absent-tokens", name)
	}
	// separators interleave with list items: between two consecutive items of a list
	// that has a separator slot there is a separator token or a substituted lexeme
	for i := 0; i+1 < len(s.Slots); i++ {
		sl := s.Slots[i]
		if sl.Kind != SVertexList || s.Slots[i+1].Kind != STokenList {
			continue
		}
		for j := 0; j+1 < len(sl.VL); j++ {
			from, to := -1, -1
			for ci, c := range w.list {
				if string(c) == "[n"+itoa(i)+"."+itoa(j)+"]" {
					from = ci
				}
				if string(c) == "[fn"+itoa(i)+"."+itoa(j+1)+"]" {
					to = ci
				}
			}
			if from < 0 || to < 0 || to < from {
				continue // reported above
			}
			sep := false
			for ci := from + 1; ci < to; ci++ {
				c := w.list[ci]
				if !(len(c) == 1 && c[0] == ' ') {
					sep = true
				}
			}
			if !sep {
				Fail("C15:list-items-not-separated", name+" "+sl.Name)
			}
		}
	}
	Cover("printed")
}

// slotOfMarker maps "[t3.1]" / "[ft3]" / "[n2]" back to a slot name.
func slotOfMarker(s *Synth, m string) string {
	i := 1
	pre := ""
	for i < len(m) && (m[i] < '0' || m[i] > '9') {
		pre += string(m[i])
		i++
	}
	n := 0
	for i < len(m) && m[i] >= '0' && m[i] <= '9' {
		n = n*10 + int(m[i]-'0')
		i++
	}
	if n < len(s.Slots) {
		if pre == "ft" || pre == "fn" {
			return s.Slots[n].Name + " (free-floating)"
		}
		return s.Slots[n].Name
	}
	return m
}
