package main

import (
	"strconv"

	"github.com/z7zmey/php-parser/pkg/ast"
	"github.com/z7zmey/php-parser/pkg/position"
	"github.com/z7zmey/php-parser/pkg/token"
	"github.com/z7zmey/php-parser/pkg/visitor/dumper"
)

func init() {
	Register("H_C16_Kind", H_C16_Kind)
}

// ---- a reader for the dumper's output ------------------------------------------------

type DTok struct {
	ID     string
	HasVal bool
	Val    string
	Pos    *[4]int
	HasFF  bool
	FF     []*DTok
}

type DField struct {
	Key  string
	Kind int // SVertex, SVertexList, SToken, STokenList, SBytes, SPosition
	Node *DNode
	List []*DNode
	Tok  *DTok
	Toks []*DTok
	Val  string
	Pos  [4]int
}

type DNode struct {
	Type   string
	Fields []DField
}

type dumpReader struct {
	lines []string
	i     int
	err   string
}

func splitLines(s string) []string {
	var out []string
	start := 0
	for i := 0; i < len(s); i++ {
		if s[i] == '\n' {
			l := s[start:i]
			for len(l) > 0 && l[0] == '\t' {
				l = l[1:]
			}
			out = append(out, l)
			start = i + 1
		}
	}
	if start < len(s) {
		out = append(out, "<unterminated line> "+s[start:])
	}
	return out
}

func hasPfx(s, p string) bool { return len(s) >= len(p) && s[:len(p)] == p }
func hasSfx(s, p string) bool { return len(s) >= len(p) && s[len(s)-len(p):] == p }

func (r *dumpReader) fail(msg string) {
	if r.err == "" {
		r.err = msg
	}
}

func (r *dumpReader) next() string {
	if r.i >= len(r.lines) {
		r.fail("unexpected end of dump")
		return ""
	}
	l := r.lines[r.i]
	r.i++
	return l
}

func (r *dumpReader) peek() string {
	if r.i >= len(r.lines) {
		return ""
	}
	return r.lines[r.i]
}

// splitKey splits "Key: rest" (the key is an identifier).
func splitKey(l string) (string, string, bool) {
	for i := 0; i < len(l); i++ {
		c := l[i]
		if c == ':' && i+1 < len(l) && l[i+1] == ' ' && i > 0 {
			return l[:i], l[i+2:], true
		}
		if !(c >= 'a' && c <= 'z' || c >= 'A' && c <= 'Z' || c >= '0' && c <= '9' || c == '_') {
			return "", l, false
		}
	}
	return "", l, false
}

func (r *dumpReader) node(first string) *DNode {
	if !hasPfx(first, "&ast.") || !hasSfx(first, "{") {
		r.fail("expected a node literal, got: " + first)
		return nil
	}
	n := &DNode{Type: first[5 : len(first)-1]}
	for r.err == "" {
		l := r.next()
		if l == "}," {
			return n
		}
		key, rest, ok := splitKey(l)
		if !ok {
			r.fail("expected a field, got: " + l)
			return n
		}
		f := DField{Key: key}
		switch {
		case rest == "&position.Position{":
			f.Kind = SPosition
			f.Pos = r.pos()
		case rest == "&token.Token{":
			f.Kind = SToken
			f.Tok = r.tok()
		case rest == "[]*token.Token{},":
			f.Kind = STokenList
			f.Toks = []*DTok{}
		case rest == "[]*token.Token{":
			f.Kind = STokenList
			f.Toks = r.toks()
		case rest == "[]ast.Vertex{},":
			f.Kind = SVertexList
			f.List = []*DNode{}
		case rest == "[]ast.Vertex{":
			f.Kind = SVertexList
			f.List = []*DNode{}
			for r.err == "" {
				e := r.next()
				if e == "}," {
					break
				}
				f.List = append(f.List, r.node(e))
			}
		case hasPfx(rest, "&ast."):
			f.Kind = SVertex
			f.Node = r.node(rest)
		case hasPfx(rest, "[]byte(") && hasSfx(rest, "),"):
			f.Kind = SBytes
			v, err := strconv.Unquote(rest[7 : len(rest)-2])
			if err != nil || hasBOM(rest) {
				r.fail("value is not a valid Go string literal")
			}
			f.Val = v
		default:
			r.fail("unrecognised field: " + l)
		}
		n.Fields = append(n.Fields, f)
	}
	return n
}

func atoiStrict(s string) (int, bool) {
	n, err := strconv.Atoi(s)
	return n, err == nil
}

func (r *dumpReader) pos() [4]int {
	var p [4]int
	names := [4]string{"StartLine: ", "EndLine:   ", "StartPos:  ", "EndPos:    "}
	for k := 0; k < 4; k++ {
		l := r.next()
		if !hasPfx(l, names[k]) || !hasSfx(l, ",") {
			r.fail("bad position line: " + l)
			return p
		}
		v, ok := atoiStrict(l[len(names[k]) : len(l)-1])
		if !ok {
			r.fail("bad position number: " + l)
		}
		p[k] = v
	}
	if r.next() != "}," {
		r.fail("position literal not closed")
	}
	return p
}

func (r *dumpReader) tok() *DTok {
	t := &DTok{}
	for r.err == "" {
		l := r.next()
		if l == "}," {
			return t
		}
		key, rest, ok := splitKey(l)
		if !ok {
			r.fail("expected a token field, got: " + l)
			return t
		}
		switch {
		case key == "ID" && hasPfx(rest, "token.") && hasSfx(rest, ",") && t.ID == "":
			t.ID = rest[6 : len(rest)-1]
		case key == "Val" && hasPfx(rest, "[]byte(") && hasSfx(rest, "),") && !t.HasVal:
			v, err := strconv.Unquote(rest[7 : len(rest)-2])
			if err != nil || hasBOM(rest) {
				r.fail("token value is not a valid Go string literal")
			}
			t.Val, t.HasVal = v, true
		case key == "Position" && rest == "&position.Position{" && t.Pos == nil:
			p := r.pos()
			t.Pos = &p
		case key == "FreeFloating" && rest == "[]*token.Token{}," && !t.HasFF:
			t.HasFF = true
		case key == "FreeFloating" && rest == "[]*token.Token{" && !t.HasFF:
			t.HasFF = true
			t.FF = r.toks()
		default:
			r.fail("unrecognised or repeated token field: " + l)
		}
	}
	return t
}

func (r *dumpReader) toks() []*DTok {
	out := []*DTok{}
	for r.err == "" {
		l := r.next()
		if l == "}," {
			break
		}
		if l != "{" {
			r.fail("expected a token literal in a token list, got: " + l)
			break
		}
		out = append(out, r.tok())
	}
	return out
}

func readDump(s string) (*DNode, string) {
	r := &dumpReader{lines: splitLines(s)}
	if len(r.lines) == 0 {
		return nil, "empty dump"
	}
	n := r.node(r.next())
	if r.err == "" && r.i != len(r.lines) {
		r.fail("text after the literal: " + r.peek())
	}
	return n, r.err
}

// ---- comparing a parsed dump with the tree ---------------------------------------------

type dumpCmp struct {
	withTokens, withPositions bool
	diff                      string
}

func (c *dumpCmp) fail(s string) {
	if c.diff == "" {
		c.diff = s
	}
}

func posArr(p *position.Position) [4]int {
	return [4]int{p.StartLine, p.EndLine, p.StartPos, p.EndPos}
}

func (c *dumpCmp) tok(d *DTok, t *token.Token, where string) {
	if t.ID > 0 {
		if d.ID != t.ID.String() {
			c.fail(where + ": token id")
		}
	} else if d.ID != "" {
		c.fail(where + ": token id dumped for id 0")
	}
	if (t.Value != nil) != d.HasVal || d.Val != string(t.Value) {
		c.fail(where + ": token value")
	}
	if c.withPositions && t.Position != nil {
		if d.Pos == nil || *d.Pos != posArr(t.Position) {
			c.fail(where + ": token position")
		}
	} else if d.Pos != nil {
		c.fail(where + ": token position dumped but not requested or absent")
	}
	if t.FreeFloating != nil {
		if !d.HasFF || len(d.FF) != len(t.FreeFloating) {
			c.fail(where + ": free-floating tokens")
			return
		}
		for i := range d.FF {
			c.tok(d.FF[i], t.FreeFloating[i], where+".FreeFloating")
		}
	} else if d.HasFF {
		c.fail(where + ": free-floating list dumped for a token without one")
	}
}

func (c *dumpCmp) node(d *DNode, n ast.Vertex, where string) {
	if d == nil {
		c.fail(where + ": missing literal")
		return
	}
	k := KindOf(n)
	if k < 0 || d.Type != KindNames[k] {
		c.fail(where + ": literal type " + d.Type)
		return
	}
	w := where + "/" + d.Type
	used := make([]bool, len(d.Fields))
	find := func(label string, kind int) *DField {
		var res *DField
		for i := range d.Fields {
			if d.Fields[i].Key == label {
				if used[i] || res != nil {
					c.fail(w + "." + label + ": dumped twice")
				}
				used[i] = true
				res = &d.Fields[i]
			}
		}
		if res != nil && res.Kind != kind {
			c.fail(w + "." + label + ": dumped as a different kind of value")
			return nil
		}
		return res
	}
	for _, sl := range SlotsOf(n) {
		switch sl.Kind {
		case SVertex:
			if IsNilVertex(sl.V) {
				continue
			}
			f := find(sl.Name, SVertex)
			if f == nil {
				c.fail(w + "." + sl.Name + ": child not dumped under its field name")
				continue
			}
			c.node(f.Node, sl.V, w+"."+sl.Name)
		case SVertexList:
			if len(sl.VL) == 0 {
				if f := find(sl.Name, SVertexList); f != nil && len(f.List) != 0 {
					c.fail(w + "." + sl.Name + ": elements dumped for an empty list")
				}
				continue
			}
			f := find(sl.Name, SVertexList)
			if f == nil || len(f.List) != len(sl.VL) {
				c.fail(w + "." + sl.Name + ": list not dumped under its field name with all elements")
				continue
			}
			for i := range sl.VL {
				c.node(f.List[i], sl.VL[i], w+"."+sl.Name)
			}
		case SToken:
			if sl.T == nil || !c.withTokens {
				continue
			}
			f := find(sl.Name, SToken)
			if f == nil {
				c.fail(w + "." + sl.Name + ": token not dumped under its field name")
				continue
			}
			c.tok(f.Tok, sl.T, w+"."+sl.Name)
		case STokenList:
			if !c.withTokens {
				continue
			}
			if len(sl.TL) == 0 {
				if f := find(sl.Name, STokenList); f != nil && len(f.Toks) != 0 {
					c.fail(w + "." + sl.Name + ": tokens dumped for an empty list")
				}
				continue
			}
			f := find(sl.Name, STokenList)
			if f == nil || len(f.Toks) != len(sl.TL) {
				c.fail(w + "." + sl.Name + ": token list not dumped under its field name with all elements")
				continue
			}
			for i := range sl.TL {
				c.tok(f.Toks[i], sl.TL[i], w+"."+sl.Name)
			}
		case SBytes:
			if sl.B == nil {
				continue
			}
			f := find("Val", SBytes)
			if f == nil || f.Val != string(sl.B) {
				c.fail(w + "." + sl.Name + ": value not dumped as Val with the same bytes")
			}
		case SPosition:
			if sl.P == nil || !c.withPositions {
				continue
			}
			f := find("Position", SPosition)
			if f == nil || f.Pos != posArr(sl.P) {
				c.fail(w + ": position not dumped with the same numbers")
			}
		}
	}
	for i := range d.Fields {
		if !used[i] {
			c.fail(w + "." + d.Fields[i].Key + ": dumped but no such non-empty field (or not requested)")
		}
	}
}

type strWriter struct{ b []byte }

func (w *strWriter) Write(p []byte) (int, error) {
	w.b = append(w.b, p...)
	return len(p), nil
}

func dumpTree(n ast.Vertex, withTokens, withPositions bool) string {
	w := &strWriter{}
	d := dumper.NewDumper(w)
	if withTokens {
		d = d.WithTokens()
	}
	if withPositions {
		d = d.WithPositions()
	}
	d.Dump(n)
	return string(w.b)
}

func checkDump(n ast.Vertex, withTokens, withPositions bool, label string) {
	out := dumpTree(n, withTokens, withPositions)
	d, err := readDump(out)
	if err != "" {
		Fail("C16:dump-is-a-composite-literal", label+": "+err)
		return
	}
	c := &dumpCmp{withTokens: withTokens, withPositions: withPositions}
	c.node(d, n, "")
	if c.diff != "" {
		Fail("C16:dump-mirrors-tree", c.diff)
	}
}

// byte strings appended to every value and token text: plain, invalid UTF-8, quote and
// backslash with a two-byte rune, a byte order mark, control characters
var valueSuffixes = []string{"", "\xff\xfea", "\u00e9\"\\", "\xef\xbb\xbf", "\n\x00\x7f"}

func hasBOM(s string) bool {
	for i := 0; i+2 < len(s); i++ {
		if s[i] == 0xef && s[i+1] == 0xbb && s[i+2] == 0xbf {
			return true
		}
	}
	return false
}

func H_C16_Kind() {
	k := ParamInt("kind")
	// the value variants are combined with one fixed slot configuration only
	synthValueSuffix = valueSuffixes[Choose(len(valueSuffixes))]
	synthFixed = synthValueSuffix != ""
	s := BuildSynth(k, 7)
	synthValueSuffix, synthFixed = "", false
	withTokens := NondetBool()
	withPositions := NondetBool()
	Observe("tokens", B2I(withTokens))
	Observe("positions", B2I(withPositions))
	checkDump(s.N, withTokens, withPositions, KindNames[k])
	Cover("dumped")
}
