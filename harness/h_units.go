package main

// Unit obligations on the two small integer kernels under C04 and C05: the line table
// (internal/scanner/newline.go) and the position combinators (internal/position). All
// integer inputs are unconstrained 64-bit values; only the number of table entries / list
// elements is bounded (a parameter).

import (
	iposition "github.com/z7zmey/php-parser/internal/position"
	"github.com/z7zmey/php-parser/internal/scanner"
	"github.com/z7zmey/php-parser/pkg/ast"
	"github.com/z7zmey/php-parser/pkg/position"
	"github.com/z7zmey/php-parser/pkg/token"
)

func init() {
	Register("H_Unit_GetLine", H_Unit_GetLine)
	Register("H_Unit_Append", H_Unit_Append)
	Register("H_Unit_Builder", H_Unit_Builder)
}

func sortedInts(n int) []int {
	d := make([]int, n)
	for i := range d {
		d[i] = NondetInt()
		if i > 0 {
			Assume(d[i-1] < d[i])
		}
	}
	return d
}

// GetLine(p) = 1 + number of recorded line starts <= p, for every strictly increasing table
// of n entries and every p.
func H_Unit_GetLine() {
	n := ParamInt("n")
	d := sortedInts(n)
	p := NondetInt()
	nl := scanner.ZZNewLines(d)
	got := nl.GetLine(p)
	want := 1
	for i := 0; i < n; i++ {
		want += B2I(d[i] <= p)
	}
	Assert("C04:unit-getline-counts-line-starts-up-to-p", got == want)
	// monotone in p (a later offset is never on an earlier line)
	q := NondetInt()
	Assume(q >= p)
	Assert("C04:unit-getline-monotone", nl.GetLine(q) >= got)
	Cover("getline")
}

// Append keeps the table strictly increasing, never loses an entry, adds p exactly when p lies
// beyond the last entry, and is idempotent (the lexer re-scans line ends after backtracking).
func H_Unit_Append() {
	n := ParamInt("n")
	d := sortedInts(n)
	old := make([]int, n)
	copy(old, d)
	p := NondetInt()
	nl := scanner.ZZNewLines(d[:n:n])
	nl.Append(p)
	d1 := nl.ZZData()
	beyond := true
	if n > 0 {
		beyond = old[n-1] < p
	}
	if beyond {
		Assert("C04:unit-append-adds-new-line-start", len(d1) == n+1)
		if len(d1) == n+1 {
			Assert("C04:unit-append-adds-new-line-start", d1[n] == p)
		}
	} else {
		Assert("C04:unit-append-ignores-known-offsets", len(d1) == n)
	}
	for i := 0; i < n && i < len(d1); i++ {
		Assert("C04:unit-append-keeps-entries", d1[i] == old[i])
	}
	for i := 1; i < len(d1); i++ {
		Assert("C04:unit-append-keeps-table-sorted", d1[i-1] < d1[i])
	}
	l1 := len(d1)
	nl.Append(p)
	Assert("C04:unit-append-idempotent", len(nl.ZZData()) == l1)
	Cover("append")
}

// ---- position combinators ------------------------------------------------------------

type zzSpan struct{ sl, el, sp, ep int }

func symSpan() zzSpan { return zzSpan{NondetInt(), NondetInt(), NondetInt(), NondetInt()} }

func (s zzSpan) pos() *position.Position {
	return &position.Position{StartLine: s.sl, EndLine: s.el, StartPos: s.sp, EndPos: s.ep}
}

var zzNone = zzSpan{-1, -1, -1, -1}

// symNode: form 0 = nil vertex, 1 = node without position, 2 = node with a symbolic position.
func symNode(form int) (ast.Vertex, zzSpan) {
	switch form {
	case 0:
		return nil, zzNone
	case 1:
		return &ast.Identifier{}, zzNone
	}
	s := symSpan()
	return &ast.Identifier{Position: s.pos()}, s
}

func symTok() (*token.Token, zzSpan) {
	s := symSpan()
	return &token.Token{Position: s.pos()}, s
}

// symList: form 0 = nil, 1 = empty non-nil, 2.. = form-1 elements with symbolic positions.
func symList(form int) (l []ast.Vertex, first, last zzSpan) {
	switch form {
	case 0:
		return nil, zzNone, zzNone
	case 1:
		return []ast.Vertex{}, zzNone, zzNone
	}
	for i := 0; i < form-1; i++ {
		n, s := symNode(2)
		l = append(l, n)
		if i == 0 {
			first = s
		}
		last = s
	}
	return
}

func checkSpan(got *position.Position, start, end zzSpan) {
	if got == nil {
		Fail("C05:unit-combinator-returns-position", "nil")
		return
	}
	Assert("C05:unit-combinator-start-from-first-argument", And(got.StartPos == start.sp, got.StartLine == start.sl))
	Assert("C05:unit-combinator-end-from-last-argument", And(got.EndPos == end.ep, got.EndLine == end.el))
}

// Every combinator takes the start (offset and line) from its first argument and the end from
// its last; a nil node, a node without position and a nil or empty list contribute -1.
func H_Unit_Builder() {
	which := ParamInt("which")
	fa, fb := ParamInt("fa"), ParamInt("fb")
	b := iposition.NewBuilder()
	var got *position.Position
	var s, e zzSpan
	switch which {
	case 0:
		l, f, la := symList(fa)
		got, s, e = b.NewNodeListPosition(l), f, la
	case 1:
		n, sp := symNode(fa)
		got, s, e = b.NewNodePosition(n), sp, sp
	case 2:
		t, sp := symTok()
		got, s, e = b.NewTokenPosition(t), sp, sp
	case 3:
		t1, s1 := symTok()
		t2, s2 := symTok()
		got, s, e = b.NewTokensPosition(t1, t2), s1, s2
	case 4:
		t, s1 := symTok()
		n, s2 := symNode(fb)
		got, s, e = b.NewTokenNodePosition(t, n), s1, s2
	case 5:
		n, s1 := symNode(fa)
		t, s2 := symTok()
		got, s, e = b.NewNodeTokenPosition(n, t), s1, s2
	case 6:
		n1, s1 := symNode(fa)
		n2, s2 := symNode(fb)
		got, s, e = b.NewNodesPosition(n1, n2), s1, s2
	case 7:
		l, f, _ := symList(fa)
		t, s2 := symTok()
		got, s, e = b.NewNodeListTokenPosition(l, t), f, s2
	case 8:
		t, s1 := symTok()
		l, _, la := symList(fb)
		got, s, e = b.NewTokenNodeListPosition(t, l), s1, la
	case 9:
		n, s1 := symNode(fa)
		l, _, la := symList(fb)
		got, s, e = b.NewNodeNodeListPosition(n, l), s1, la
	case 10:
		l, f, _ := symList(fa)
		n, s2 := symNode(fb)
		got, s, e = b.NewNodeListNodePosition(l, n), f, s2
	case 11:
		// optional list: absent (nil) -> the span starts at the token that follows
		l, f, _ := symList(fa)
		t, s1 := symTok()
		t2, s2 := symTok()
		got = b.NewOptionalListTokensPosition(l, t, t2)
		if fa == 0 {
			s = s1
		} else {
			s = f
		}
		e = s2
	}
	checkSpan(got, s, e)
	// the result is a fresh position: distinct from the next one handed out
	Assert("C05:unit-combinator-fresh-position", got != b.NewTokenPosition(&token.Token{Position: &position.Position{}}))
	Cover("combinator")
}
