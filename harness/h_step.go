package main

// S7: one step of the real (*scanner.Lexer).Lex from an arbitrary between-tokens state.
// The state is not reached by scanning a prefix; it is constructed: any entry state, any
// state stack of the given depth over the entry states, two arbitrary look-behind bytes, a
// heredoc label, and K arbitrary bytes up to the end of input.

import (
	"github.com/z7zmey/php-parser/internal/scanner"
	"github.com/z7zmey/php-parser/pkg/conf"
	"github.com/z7zmey/php-parser/pkg/errors"
	"github.com/z7zmey/php-parser/pkg/version"
)

func init() { Register("H_Step", H_Step) }

func splitComma(s string) []string {
	var out []string
	cur := ""
	for i := 0; i < len(s); i++ {
		if s[i] == ',' {
			out = append(out, cur)
			cur = ""
		} else {
			cur += string(s[i])
		}
	}
	if cur != "" {
		out = append(out, cur)
	}
	return out
}

func isNameStartByte(b byte) bool {
	return Or(Or(And(b >= 'a', b <= 'z'), And(b >= 'A', b <= 'Z')), Or(b == '_', b >= 0x80))
}

func isEntryState(s int) bool {
	for _, e := range scanner.ZZEntryStates {
		if s == e {
			return true
		}
	}
	return false
}

// stateIdx: index into scanner.ZZEntryStates by name.
func stateIdx(name string) int {
	for i, n := range scanner.ZZEntryNames {
		if n == name {
			return i
		}
	}
	panic("unknown scanner state " + name)
}

// H_Step parameters: cs = name of the current state; stack = comma-separated names of the
// states on the state stack (bottom first; the driver only passes stacks the call structure of
// scanner.rl can build: return addresses are php, heredoc, backqote, template_string, and
// string_var directly below string_var_index); k = bytes up to the end of input.
func H_Step() {
	csName := ParamStr("cs")
	k := ParamInt("k")
	calls := ParamInt("calls")
	label := []byte(ParamStr("label"))
	major, minor := PickVersion()
	withCb := NondetBool()

	data := make([]byte, 2+k)
	for i := range data {
		data[i] = NondetByte()
	}
	orig := make([]byte, len(data))
	copy(orig, data)
	var stack []int
	for _, n := range splitComma(ParamStr("stack")) {
		stack = append(stack, scanner.ZZEntryStates[stateIdx(n)])
	}
	cfg := conf.Config{Version: &version.Version{Major: major, Minor: minor}}
	nerr := 0
	if withCb {
		cfg.ErrorHandlerFunc = func(e *errors.Error) { nerr++ }
	}
	lex := scanner.ZZLexerAt(data, cfg, scanner.ZZEntryStates[stateIdx(csName)], 2, stack, label)
	// invariant of the body states: the closing label is not at the cursor (the action that
	// enters or stays in nowdoc/heredoc has tested exactly this); of heredoc_end: it is.
	switch csName {
	case "nowdoc", "heredoc":
		Assume(!lex.ZZIsHeredocEnd(2))
	case "heredoc_end":
		Assume(lex.ZZIsHeredocEnd(2))
	case "string_var":
		// entered at '$' + name start; stays while the variable and '->name' are lexed: the
		// cursor is either at that '$' or directly behind a name byte
		atVar := false
		if k >= 2 {
			atVar = And(data[2] == '$', isNameStartByte(data[3]))
		}
		Assume(Or(atVar, Or(isNameStartByte(data[1]), And(data[1] >= '0', data[1] <= '9'))))
	}
	ObserveBytes("in", data)
	for c := 0; c < calls; c++ {
		_, p0, _, _, _, _ := lex.ZZState()
		tkn := lex.Lex()
		cs1, p1, pe1, top1, st1, _ := lex.ZZState()
		Observe("id", int(tkn.ID))
		Observe("p", p1)
		Observe("cs", cs1)
		Observe("top", top1)
		Assert("C01:step-token-returned", tkn != nil)
		Assert("C01:step-cs-is-entry-state", isEntryState(cs1))
		Assert("C01:step-cursor-in-range", And(0 <= p1, p1 <= pe1))
		Assert("C01:step-end-unchanged", pe1 == len(data))
		Assert("C01:step-stack-depth-in-range", And(0 <= top1, top1 <= len(st1)))
		for i := 0; i < top1 && i < len(st1); i++ {
			Assert("C01:step-stack-holds-entry-states", isEntryState(st1[i]))
		}
		// progress: a call either consumes input or reports the end of input
		Assert("C01:step-progress", Or(p1 > p0, int(tkn.ID) <= 0))
		if tkn.ID > 0 && tkn.Position != nil {
			Assert("C04:step-token-offsets-in-range", And(And(0 <= tkn.Position.StartPos, tkn.Position.StartPos <= tkn.Position.EndPos), tkn.Position.EndPos <= len(data)))
			Assert("C04:step-token-text-is-source-slice", And(SliceOff(data, tkn.Value) == tkn.Position.StartPos, len(tkn.Value) == tkn.Position.EndPos-tkn.Position.StartPos))
			Assert("C04:step-token-ends-at-cursor", tkn.Position.EndPos <= p1)
		}
		if int(tkn.ID) <= 0 {
			break
		}
	}
	Assert("C01:step-buffer-unchanged", BytesEq(data, orig))
	Cover("step")
}
