package main

// Shared harness code: input templates, the parse/print drivers, generic tree
// walking built on the generated SlotsOf, and the reference definitions the
// oracles use (line numbering, token classification).

import (
	"github.com/z7zmey/php-parser/pkg/ast"
	"github.com/z7zmey/php-parser/pkg/conf"
	"github.com/z7zmey/php-parser/pkg/errors"
	"github.com/z7zmey/php-parser/pkg/parser"
	"github.com/z7zmey/php-parser/pkg/position"
	"github.com/z7zmey/php-parser/pkg/token"
	"github.com/z7zmey/php-parser/pkg/version"
	"github.com/z7zmey/php-parser/pkg/visitor/printer"
)

// ---- input templates -------------------------------------------------------------
//
// ParamStr("tmpl") is a sequence of segments separated by "\x00":
//   "C" text                      concrete bytes
//   "K" word                      the word with every letter in either case (symbolic)
//   "H" class min max             a hole: every length min..max (a Choose), each
//                                 byte symbolic and constrained to the class
// classes: a any byte; w whitespace [ \t\n\r\v\f]; s [ \t]; l letter [A-Za-z];
//          L lower-case letter; i identifier byte [A-Za-z0-9_]; d digit;
//          x hex digit; p printable ASCII except quotes/backslash/$/{ ;
//          I / j first / later byte of a name (incl. >= 0x80); q string-body byte other than
//          quotes, backslash, '$', '{'; h any byte except '<';
//          z 'Z' or 'z'; n any byte except \n and \r; c any byte except '*' '/' '?' '>' \n \r;
//          k any byte except \n \r '?'; e any byte except \n \r
// BuildInput returns the buffer and, per byte, whether it belongs to a hole.

func classOK(c byte, b byte) bool {
	switch c {
	case 'a':
		return true
	case 'w':
		return Or(Or(Or(b == ' ', b == '\t'), Or(b == '\n', b == '\r')), Or(b == '\v', b == '\f'))
	case 's':
		return Or(b == ' ', b == '\t')
	case 'l':
		return Or(And(b >= 'A', b <= 'Z'), And(b >= 'a', b <= 'z'))
	case 'L':
		return And(b >= 'a', b <= 'z')
	case 'i':
		return Or(Or(And(b >= 'A', b <= 'Z'), And(b >= 'a', b <= 'z')), Or(And(b >= '0', b <= '9'), b == '_'))
	case 'd':
		return And(b >= '0', b <= '9')
	case 'x':
		return Or(And(b >= '0', b <= '9'), Or(And(b >= 'a', b <= 'f'), And(b >= 'A', b <= 'F')))
	case 'p':
		return And(And(b >= 0x20, b <= 0x7e), And(And(b != '"', b != '\''), And(And(b != '\\', b != '$'), And(b != '{', b != '`'))))
	case 'z':
		return Or(b == 'Z', b == 'z')
	case 'I': // first byte of a name
		return Or(Or(And(b >= 'A', b <= 'Z'), And(b >= 'a', b <= 'z')), Or(b == '_', b >= 0x80))
	case 'j': // later byte of a name
		return Or(Or(Or(And(b >= 'A', b <= 'Z'), And(b >= 'a', b <= 'z')), Or(b == '_', b >= 0x80)), And(b >= '0', b <= '9'))
	case 'q': // byte of a string body that starts nothing special
		return And(And(And(b != '"', b != '\''), And(b != '\\', b != '$')), And(b != '{', b != '`'))
	case 'h': // byte of inline HTML other than '<'
		return b != '<'
	case 'n':
		return And(b != '\n', b != '\r')
	case 'c':
		return And(And(And(b != '*', b != '/'), And(b != '?', b != '>')), And(b != '\n', b != '\r'))
	case 'k': // byte inside a one-line comment that cannot start a close tag
		return And(And(b != '\n', b != '\r'), b != '?')
	case 'e': // last byte of a one-line comment that is ended by a close tag ('?' and '>' included)
		return And(b != '\n', b != '\r')
	}
	return false
}

func atoiSeg(s string) int {
	n := 0
	for i := 0; i < len(s); i++ {
		n = n*10 + int(s[i]-'0')
	}
	return n
}

// splitZero splits s at "\x00".
func splitZero(s string) []string {
	var out []string
	start := 0
	for i := 0; i < len(s); i++ {
		if s[i] == 0 {
			out = append(out, s[start:i])
			start = i + 1
		}
	}
	return append(out, s[start:])
}

// BuildInput constructs the input buffer from the "tmpl" parameter.
func BuildInput() (in []byte, hole []bool) {
	segs := splitZero(ParamStr("tmpl"))
	for _, sg := range segs {
		if len(sg) == 0 {
			continue
		}
		switch sg[0] {
		case 'C':
			for i := 1; i < len(sg); i++ {
				in = append(in, sg[i])
				hole = append(hole, false)
			}
		case 'K':
			// a word in any letter case: every letter is a symbolic byte b with
			// (b | 0x20) == lower-case letter; other bytes are concrete
			for i := 1; i < len(sg); i++ {
				c := sg[i]
				if (c >= 'a' && c <= 'z') || (c >= 'A' && c <= 'Z') {
					b := NondetByte()
					Assume((b | 0x20) == (c | 0x20))
					Assume(Or(And(b >= 'A', b <= 'Z'), And(b >= 'a', b <= 'z')))
					in = append(in, b)
					hole = append(hole, true)
				} else {
					in = append(in, c)
					hole = append(hole, false)
				}
			}
		case 'H':
			// "H" class min max, single characters / small numbers: H a 0 3 -> "Ha03"
			c := sg[1]
			min := int(sg[2] - '0')
			max := int(sg[3] - '0')
			n := min
			if max > min {
				n = min + Choose(max-min+1)
			}
			for i := 0; i < n; i++ {
				b := NondetByte()
				if c != 'a' {
					Assume(classOK(c, b))
				}
				in = append(in, b)
				hole = append(hole, true)
			}
		}
	}
	return in, hole
}

// ---- parsing -----------------------------------------------------------------------

type ParseOut struct {
	Root ast.Vertex
	Err  error
	Errs []*errors.Error
}

func ParseWith(in []byte, major, minor uint64, withCb bool) *ParseOut {
	out := &ParseOut{}
	cfg := conf.Config{Version: &version.Version{Major: major, Minor: minor}}
	if withCb {
		cfg.ErrorHandlerFunc = func(e *errors.Error) { out.Errs = append(out.Errs, e) }
	}
	out.Root, out.Err = parser.Parse(in, cfg)
	return out
}

// versions selectable through the "ver" parameter: a string such as "7.4,5.6"
// -> Choose among them.
func PickVersion() (uint64, uint64) {
	vs := ParamStr("ver")
	var list [][2]uint64
	i := 0
	for i < len(vs) {
		var ma, mi uint64
		for i < len(vs) && vs[i] != '.' {
			ma = ma*10 + uint64(vs[i]-'0')
			i++
		}
		i++
		for i < len(vs) && vs[i] != ',' {
			mi = mi*10 + uint64(vs[i]-'0')
			i++
		}
		i++
		list = append(list, [2]uint64{ma, mi})
	}
	k := 0
	if len(list) > 1 {
		k = Choose(len(list))
	}
	Observe("ver.major", int(list[k][0]))
	Observe("ver.minor", int(list[k][1]))
	return list[k][0], list[k][1]
}

// ---- collecting writer -------------------------------------------------------------

type Chunks struct {
	list [][]byte
	n    int
}

func (c *Chunks) Write(b []byte) (int, error) {
	c.list = append(c.list, b)
	c.n += len(b)
	return len(b), nil
}

func (c *Chunks) Bytes() []byte {
	out := make([]byte, 0, c.n)
	for _, b := range c.list {
		out = append(out, b...)
	}
	return out
}

func PrintTree(root ast.Vertex) *Chunks {
	c := &Chunks{}
	root.Accept(printer.NewPrinter(c))
	return c
}

// ---- walking -----------------------------------------------------------------------

// Walk calls f for every node of the tree in declaration (pre-)order.
func Walk(n ast.Vertex, parent ast.Vertex, f func(n, parent ast.Vertex)) {
	if IsNilVertex(n) {
		return
	}
	f(n, parent)
	for _, s := range SlotsOf(n) {
		switch s.Kind {
		case SVertex:
			Walk(s.V, n, f)
		case SVertexList:
			for _, c := range s.VL {
				Walk(c, n, f)
			}
		}
	}
}

// TokensOf appends every token reachable from n (free-floating tokens before
// their owner) in declaration order.
func TokensOf(n ast.Vertex, out []*token.Token, withFF bool) []*token.Token {
	if IsNilVertex(n) {
		return out
	}
	for _, s := range SlotsOf(n) {
		switch s.Kind {
		case SVertex:
			out = TokensOf(s.V, out, withFF)
		case SVertexList:
			for _, c := range s.VL {
				out = TokensOf(c, out, withFF)
			}
		case SToken:
			out = addTok(out, s.T, withFF)
		case STokenList:
			for _, t := range s.TL {
				out = addTok(out, t, withFF)
			}
		}
	}
	return out
}

func addTok(out []*token.Token, t *token.Token, withFF bool) []*token.Token {
	if t == nil {
		return out
	}
	if withFF {
		for _, f := range t.FreeFloating {
			if f != nil {
				out = append(out, f)
			}
		}
	}
	return append(out, t)
}

// sortTokens orders tokens by start offset (insertion sort; positions are concrete).
func sortTokens(ts []*token.Token) {
	for i := 1; i < len(ts); i++ {
		for j := i; j > 0 && tokLess(ts[j], ts[j-1]); j-- {
			ts[j], ts[j-1] = ts[j-1], ts[j]
		}
	}
}

func tokLess(a, b *token.Token) bool {
	if a.Position == nil || b.Position == nil {
		return false
	}
	if a.Position.StartPos != b.Position.StartPos {
		return a.Position.StartPos < b.Position.StartPos
	}
	return a.Position.EndPos < b.Position.EndPos
}

// ---- reference line numbering ------------------------------------------------------

// LineTable returns lines[o] = 1-based line of byte offset o (0 <= o <= len(in)),
// where LF, CRLF and a lone CR each end one line. Built without forking.
func LineTable(in []byte) []int {
	lines := make([]int, len(in)+1)
	cur := 1
	for i := 0; i < len(in); i++ {
		lines[i] = cur
		var nl bool
		if i+1 < len(in) {
			nl = Or(in[i] == '\n', And(in[i] == '\r', in[i+1] != '\n'))
		} else {
			nl = Or(in[i] == '\n', in[i] == '\r')
		}
		cur = cur + B2I(nl)
	}
	lines[len(in)] = cur
	return lines
}

// BytesEq compares two byte strings without forking.
func BytesEq(a, b []byte) bool {
	if len(a) != len(b) {
		return false
	}
	eq := true
	for i := range a {
		eq = And(eq, a[i] == b[i])
	}
	return eq
}

// ---- tree comparison ---------------------------------------------------------------

const (
	CmpTokens    = 1 << iota // token ids and values
	CmpFreeFloat             // free-floating tokens of every token
	CmpPositions             // node and token positions
)

type treeCmp struct {
	flags int
	eq    bool   // conjunction of all symbolic byte comparisons
	diff  string // first structural (concrete) difference, "" if none
}

func (c *treeCmp) fail(where string) {
	if c.diff == "" {
		c.diff = where
	}
}

func posEq(a, b *position.Position) bool {
	if a == nil || b == nil {
		return a == b
	}
	return a.StartLine == b.StartLine && a.EndLine == b.EndLine && a.StartPos == b.StartPos && a.EndPos == b.EndPos
}

func (c *treeCmp) tok(a, b *token.Token, where string, ff bool) {
	if a == nil || b == nil {
		if a != b {
			c.fail(where + ":presence")
		}
		return
	}
	if a.ID != b.ID {
		c.fail(where + ":id")
		return
	}
	if len(a.Value) != len(b.Value) {
		c.fail(where + ":len")
		return
	}
	c.eq = And(c.eq, BytesEq(a.Value, b.Value))
	if c.flags&CmpPositions != 0 && !posEq(a.Position, b.Position) {
		c.fail(where + ":pos")
	}
	if ff && c.flags&CmpFreeFloat != 0 {
		if len(a.FreeFloating) != len(b.FreeFloating) {
			c.fail(where + ":ffcount")
			return
		}
		for i := range a.FreeFloating {
			c.tok(a.FreeFloating[i], b.FreeFloating[i], where+":ff", false)
		}
	}
}

func (c *treeCmp) node(a, b ast.Vertex, where string) {
	an, bn := IsNilVertex(a), IsNilVertex(b)
	if an || bn {
		if an != bn {
			c.fail(where + ":presence")
		}
		return
	}
	ka, kb := KindOf(a), KindOf(b)
	if ka != kb {
		c.fail(where + ":kind " + kindName(ka) + "/" + kindName(kb))
		return
	}
	sa, sb := SlotsOf(a), SlotsOf(b)
	w := where + "/" + kindName(ka)
	for i := range sa {
		x, y := sa[i], sb[i]
		switch x.Kind {
		case SVertex:
			c.node(x.V, y.V, w+"."+x.Name)
		case SVertexList:
			if len(x.VL) != len(y.VL) {
				c.fail(w + "." + x.Name + ":len")
				continue
			}
			for j := range x.VL {
				c.node(x.VL[j], y.VL[j], w+"."+x.Name)
			}
		case SToken:
			if c.flags&CmpTokens != 0 {
				c.tok(x.T, y.T, w+"."+x.Name, true)
			}
		case STokenList:
			if c.flags&CmpTokens != 0 {
				if len(x.TL) != len(y.TL) {
					c.fail(w + "." + x.Name + ":len")
					continue
				}
				for j := range x.TL {
					c.tok(x.TL[j], y.TL[j], w+"."+x.Name, true)
				}
			}
		case SBytes:
			if len(x.B) != len(y.B) {
				c.fail(w + "." + x.Name + ":len")
				continue
			}
			c.eq = And(c.eq, BytesEq(x.B, y.B))
		case SPosition:
			if c.flags&CmpPositions != 0 && !posEq(x.P, y.P) {
				c.fail(w + ":position")
			}
		}
	}
}

func kindName(k int) string {
	if k < 0 || k >= NumKinds {
		return "?"
	}
	return KindNames[k]
}

// TreeEq compares two trees; diff is the first structural difference.
func TreeEq(a, b ast.Vertex, flags int) (eq bool, diff string) {
	c := &treeCmp{flags: flags, eq: true}
	c.node(a, b, "")
	return c.eq, c.diff
}

// ErrsEq compares two error lists (messages and positions).
func ErrsEq(a, b []*errors.Error) bool {
	if len(a) != len(b) {
		return false
	}
	eq := true
	for i := range a {
		if len(a[i].Msg) != len(b[i].Msg) {
			return false
		}
		eq = And(eq, a[i].Msg == b[i].Msg)
		if !posEq(a[i].Pos, b[i].Pos) {
			return false
		}
	}
	return eq
}

// ---- H_Probe: native helper for the driver (token spans of a concrete source) -----

func init() { Register("H_Probe", H_Probe) }

func H_Probe() {
	in := []byte(ParamStr("src"))
	major, minor := PickVersion()
	a := ParseWith(in, major, minor, true)
	Observe("nerr", len(a.Errs))
	if IsNilVertex(a.Root) {
		return
	}
	s := ""
	var add func(t *token.Token, ff int)
	add = func(t *token.Token, ff int) {
		if t == nil || t.Position == nil {
			return
		}
		s += itoaL(int(t.ID)) + ":" + itoaL(t.Position.StartPos) + ":" + itoaL(t.Position.EndPos) + ":" + itoaL(ff) + ";"
	}
	for _, t := range TokensOf(a.Root, nil, false) {
		for _, f := range t.FreeFloating {
			add(f, 1)
		}
		add(t, 0)
	}
	ObserveStr("toks", s)
}

func itoaL(n int) string {
	if n == 0 {
		return "0"
	}
	neg := n < 0
	if neg {
		n = -n
	}
	var b []byte
	for n > 0 {
		b = append([]byte{byte('0' + n%10)}, b...)
		n /= 10
	}
	if neg {
		b = append([]byte{'-'}, b...)
	}
	return string(b)
}
