package main

func init() { Register("H_C01", H_C01) }

// H_C01: whole pipeline on a template input, both callback settings.
// Crashes and hangs are path outcomes (Go run-time checks / instruction budget);
// the assertions cover the rest of the property.
func H_C01() {
	in, _ := BuildInput()
	major, minor := PickVersion()
	orig := make([]byte, len(in))
	copy(orig, in)
	ObserveBytes("in", in)

	a := ParseWith(in, major, minor, true)
	Assert("C01:err-nil", a.Err == nil)
	Assert("C01:buffer-unchanged", BytesEq(in, orig))
	Observe("nerr", len(a.Errs))
	Observe("rootnil", B2I(a.Root == nil))

	b := ParseWith(in, major, minor, false)
	Assert("C01:err-nil/nocb", b.Err == nil)
	Assert("C01:buffer-unchanged/nocb", BytesEq(in, orig))
	Observe("rootnil/nocb", B2I(b.Root == nil))
	Assert("C01:no-stdout", Not(WrotePrint()))
	Assert("C01:no-static-write", LibStaticWrites() == 0)
}
