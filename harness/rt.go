// Harness runtime. This file is overlaid (as /repo/zz_verif_rt.go) together with
// the harness files. Under the symbolic engine the functions marked INTRINSIC are
// intercepted by name and their bodies are never executed; compiled natively
// they replay a witness produced by the solver against the real code.
package main

import (
	"bufio"
	"encoding/json"
	"fmt"
	"os"
	"runtime"
	"runtime/debug"
	"strconv"
	"time"
	"unsafe"
)

type zzCase struct {
	ID      int                    `json:"id"`
	Entry   string                 `json:"entry"`
	Params  map[string]interface{} `json:"params"`
	Witness []uint64               `json:"witness"`
}

type zzObsT struct {
	Tag string `json:"tag"`
	Val string `json:"val"`
}

type zzResult struct {
	ID       int      `json:"id"`
	Outcome  string   `json:"outcome"` // ok | panic | hang | assume-false | witness-exhausted
	Msg      string   `json:"msg,omitempty"`
	Obs      []zzObsT `json:"obs"`
	Failures []string `json:"failures"`
	Covers   []string `json:"covers,omitempty"`
}

var (
	zzEntries = map[string]func(){}
	zzCur     *zzCase
	zzPos     int
	zzRes     *zzResult
)

type zzAssumeFalse struct{}
type zzEnd struct{}
type zzExhausted struct{}

// Register makes a harness entry point known to the native replayer.
func Register(name string, f func()) { zzEntries[name] = f }

func zzNext() uint64 {
	if zzCur == nil || zzPos >= len(zzCur.Witness) {
		panic(zzExhausted{})
	}
	v := zzCur.Witness[zzPos]
	zzPos++
	return v
}

// ---- INTRINSICS ------------------------------------------------------------

func NondetByte() byte     { return byte(zzNext()) }
func NondetInt() int       { return int(zzNext()) }
func NondetUint64() uint64 { return zzNext() }
func NondetBool() bool     { return zzNext() != 0 }
func Choose(n int) int     { return int(zzNext()) }
func InEngine() bool       { return false }

func Assume(c bool) {
	if !c {
		panic(zzAssumeFalse{})
	}
}

func Assert(id string, c bool) {
	if !c {
		zzRes.Failures = append(zzRes.Failures, id)
	}
}

func Fail(id string, msg string) { zzRes.Failures = append(zzRes.Failures, id) }

func B2I(c bool) int {
	if c {
		return 1
	}
	return 0
}
func And(a, b bool) bool { return a && b }
func Or(a, b bool) bool  { return a || b }
func Not(a bool) bool    { return !a }
func IteInt(c bool, a, b int) int {
	if c {
		return a
	}
	return b
}
func IteByte(c bool, a, b byte) byte {
	if c {
		return a
	}
	return b
}

func Observe(tag string, v int) {
	zzRes.Obs = append(zzRes.Obs, zzObsT{tag, strconv.Itoa(v)})
}
func ObserveBytes(tag string, b []byte) {
	zzRes.Obs = append(zzRes.Obs, zzObsT{tag, fmt.Sprintf("%q", b)})
}
func ObserveStr(tag string, s string) {
	zzRes.Obs = append(zzRes.Obs, zzObsT{tag, fmt.Sprintf("%q", []byte(s))})
}
func Cover(tag string) { zzRes.Covers = append(zzRes.Covers, tag) }

func ParamInt(name string) int {
	v, ok := zzCur.Params[name]
	if !ok {
		panic("missing parameter " + name)
	}
	return int(v.(float64))
}
func ParamStr(name string) string {
	v, ok := zzCur.Params[name]
	if !ok {
		panic("missing parameter " + name)
	}
	return v.(string)
}

// SliceOff returns the offset of s inside base's backing array, or -1.
func SliceOff(base, s []byte) int {
	if cap(base) == 0 || s == nil {
		return -1
	}
	pb := *(*uintptr)(unsafe.Pointer(&base))
	p := *(*uintptr)(unsafe.Pointer(&s))
	if p < pb || p > pb+uintptr(cap(base)) {
		return -1
	}
	return int(p - pb)
}

func SamePtr(a, b interface{}) bool { return a == b }

// SameArray: both pointers address elements of the same array allocation (engine only).
func SameArray(a, b interface{}) bool { panic("SameArray is engine-only") }
func IsSymbolic(x interface{}) bool   { return false }
func LibStaticWrites() int            { return 0 }
func EndPath()                        { panic(zzEnd{}) }
func WrotePrint() bool                { return false }
func Concretize(x int) int            { return x }
func ConcretizeByte(x byte) byte      { return x }

// ---- non-intrinsic helpers (interpreted by the engine like any other code) ----

func NondetBytes(n int) []byte {
	b := make([]byte, n)
	for i := 0; i < n; i++ {
		b[i] = NondetByte()
	}
	return b
}

// ---- native replay driver ----------------------------------------------------

func zzRunCase(c *zzCase) (res *zzResult) {
	res = &zzResult{ID: c.ID, Outcome: "ok", Obs: []zzObsT{}, Failures: []string{}}
	f := zzEntries[c.Entry]
	if f == nil {
		res.Outcome = "no-entry"
		return
	}
	zzCur, zzPos, zzRes = c, 0, res
	done := make(chan struct{})
	go func() {
		defer close(done)
		defer func() {
			if r := recover(); r != nil {
				switch r.(type) {
				case zzAssumeFalse:
					res.Outcome = "assume-false"
				case zzEnd:
				case zzExhausted:
					res.Outcome = "witness-exhausted"
				default:
					res.Outcome = "panic"
					res.Msg = fmt.Sprint(r)
					if e, ok := r.(error); ok {
						res.Msg = e.Error()
					}
				}
			}
		}()
		f()
	}()
	limit := 8 * time.Second
	tick := time.NewTicker(50 * time.Millisecond)
	defer tick.Stop()
	deadline := time.After(limit)
	for {
		select {
		case <-done:
			return res
		case <-deadline:
			res.Outcome = "hang"
			res.Msg = "no result after " + limit.String()
			return res
		case <-tick.C:
			var ms runtime.MemStats
			runtime.ReadMemStats(&ms)
			if ms.HeapAlloc > 3<<30 {
				res.Outcome = "hang"
				res.Msg = "heap grew beyond 3 GiB"
				return res
			}
		}
	}
}

func main() {
	if len(os.Args) < 2 {
		fmt.Fprintln(os.Stderr, "usage: replay <cases.jsonl> [start-index]")
		os.Exit(2)
	}
	debug.SetGCPercent(100)
	f, err := os.Open(os.Args[1])
	if err != nil {
		fmt.Fprintln(os.Stderr, err)
		os.Exit(2)
	}
	start := 0
	if len(os.Args) > 2 {
		start, _ = strconv.Atoi(os.Args[2])
	}
	sc := bufio.NewScanner(f)
	sc.Buffer(make([]byte, 1<<20), 1<<28)
	out := bufio.NewWriter(os.Stdout)
	defer out.Flush()
	n := 0
	for sc.Scan() {
		if n < start {
			n++
			continue
		}
		n++
		var c zzCase
		if err := json.Unmarshal(sc.Bytes(), &c); err != nil {
			fmt.Fprintln(os.Stderr, "bad case:", err)
			os.Exit(2)
		}
		res := zzRunCase(&c)
		b, _ := json.Marshal(res)
		out.Write(b)
		out.WriteByte('\n')
		if res.Outcome == "hang" {
			// the runaway goroutine cannot be stopped: leave, the driver restarts us
			out.Flush()
			os.Exit(3)
		}
	}
}

// StaticWriteInfo describes the first library write to static memory (engine only).
func StaticWriteInfo(k int) string { return "" }
