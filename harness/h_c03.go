package main

// C03: families of valid programs with an explicit reference for the tree PHP's grammar
// prescribes (DESIGN.md 4/C03): keyword/cast case-insensitivity, operator precedence
// and associativity, dangling else, acceptance of the corpus, version gating.

import (
	"github.com/z7zmey/php-parser/pkg/ast"
	"github.com/z7zmey/php-parser/pkg/version"
)

func init() {
	Register("H_C03_Keyword", H_C03_Keyword)
	Register("H_C03_Expr", H_C03_Expr)
	Register("H_C03_If", H_C03_If)
	Register("H_C03_Accept", H_C03_Accept)
	Register("H_C03_Gate", H_C03_Gate)
	Register("H_C03_Literal", H_C03_Literal)
}

// H_C03_Keyword: the token that starts at offset "at" has id "tok", spans "n" bytes
// and carries the source bytes (every letter of the keyword in either case).
func H_C03_Keyword() {
	in, _ := BuildInput()
	major, minor := PickVersion()
	at, n, want := ParamInt("at"), ParamInt("n"), ParamInt("tok")
	ObserveBytes("in", in)
	toks := lexAll(in, major, minor)
	what := ParamStr("what")
	for _, t := range toks {
		if t.Position == nil || t.Position.StartPos != at {
			continue
		}
		if int(t.ID) != want {
			Fail("C03:keyword-token", what+": lexed as "+t.ID.String())
			return
		}
		if ParamInt("exact") != 0 {
			if t.Position.EndPos-at != n {
				Fail("C03:keyword-token", what+": wrong extent")
				return
			}
		}
		Assert("C03:keyword-text-verbatim|"+what, BytesEq(t.Value, in[at:t.Position.EndPos]))
		Cover("lexed")
		return
	}
	Fail("C03:keyword-token", what+": no token starts there")
}

// ---- expression shapes ---------------------------------------------------------------

func bin(op string, l, r ast.Vertex) string {
	return "(" + exprShape(l) + op + exprShape(r) + ")"
}

func un(op string, e ast.Vertex) string { return "(" + op + exprShape(e) + ")" }

func nameShape(n ast.Vertex) string {
	switch x := n.(type) {
	case *ast.Name:
		s := ""
		for i, p := range x.Parts {
			if i > 0 {
				s += "\\"
			}
			if np, ok := p.(*ast.NamePart); ok {
				s += string(np.Value)
			}
		}
		return s
	case *ast.Identifier:
		return string(x.Value)
	}
	return exprShape(n)
}

// exprShape renders an expression fully parenthesised with PHP's operator lexemes;
// it is the reference for "each construct becomes the corresponding node kind with its
// operands in the right roles".
func exprShape(n ast.Vertex) string {
	if IsNilVertex(n) {
		return ""
	}
	switch x := n.(type) {
	case *ast.ExprVariable:
		return nameShape(x.Name)
	case *ast.ScalarLnumber:
		return string(x.Value)
	case *ast.ScalarDnumber:
		return string(x.Value)
	case *ast.ScalarString:
		return string(x.Value)
	case *ast.ExprConstFetch:
		return nameShape(x.Const)
	case *ast.Name:
		return nameShape(x)
	case *ast.ExprBrackets:
		return "[" + exprShape(x.Expr) + "]"
	case *ast.ExprBinaryPlus:
		return bin("+", x.Left, x.Right)
	case *ast.ExprBinaryMinus:
		return bin("-", x.Left, x.Right)
	case *ast.ExprBinaryMul:
		return bin("*", x.Left, x.Right)
	case *ast.ExprBinaryDiv:
		return bin("/", x.Left, x.Right)
	case *ast.ExprBinaryMod:
		return bin("%", x.Left, x.Right)
	case *ast.ExprBinaryPow:
		return bin("**", x.Left, x.Right)
	case *ast.ExprBinaryConcat:
		return bin(".", x.Left, x.Right)
	case *ast.ExprBinaryShiftLeft:
		return bin("<<", x.Left, x.Right)
	case *ast.ExprBinaryShiftRight:
		return bin(">>", x.Left, x.Right)
	case *ast.ExprBinarySmaller:
		return bin("<", x.Left, x.Right)
	case *ast.ExprBinarySmallerOrEqual:
		return bin("<=", x.Left, x.Right)
	case *ast.ExprBinaryGreater:
		return bin(">", x.Left, x.Right)
	case *ast.ExprBinaryGreaterOrEqual:
		return bin(">=", x.Left, x.Right)
	case *ast.ExprBinaryEqual:
		return bin("==", x.Left, x.Right)
	case *ast.ExprBinaryNotEqual:
		return bin("!=", x.Left, x.Right)
	case *ast.ExprBinaryIdentical:
		return bin("===", x.Left, x.Right)
	case *ast.ExprBinaryNotIdentical:
		return bin("!==", x.Left, x.Right)
	case *ast.ExprBinarySpaceship:
		return bin("<=>", x.Left, x.Right)
	case *ast.ExprBinaryBitwiseAnd:
		return bin("&", x.Left, x.Right)
	case *ast.ExprBinaryBitwiseXor:
		return bin("^", x.Left, x.Right)
	case *ast.ExprBinaryBitwiseOr:
		return bin("|", x.Left, x.Right)
	case *ast.ExprBinaryBooleanAnd:
		return bin("&&", x.Left, x.Right)
	case *ast.ExprBinaryBooleanOr:
		return bin("||", x.Left, x.Right)
	case *ast.ExprBinaryCoalesce:
		return bin("??", x.Left, x.Right)
	case *ast.ExprBinaryLogicalAnd:
		return bin(" and ", x.Left, x.Right)
	case *ast.ExprBinaryLogicalXor:
		return bin(" xor ", x.Left, x.Right)
	case *ast.ExprBinaryLogicalOr:
		return bin(" or ", x.Left, x.Right)
	case *ast.ExprAssign:
		return bin("=", x.Var, x.Expr)
	case *ast.ExprAssignReference:
		return bin("=&", x.Var, x.Expr)
	case *ast.ExprAssignPlus:
		return bin("+=", x.Var, x.Expr)
	case *ast.ExprAssignMinus:
		return bin("-=", x.Var, x.Expr)
	case *ast.ExprAssignMul:
		return bin("*=", x.Var, x.Expr)
	case *ast.ExprAssignDiv:
		return bin("/=", x.Var, x.Expr)
	case *ast.ExprAssignMod:
		return bin("%=", x.Var, x.Expr)
	case *ast.ExprAssignPow:
		return bin("**=", x.Var, x.Expr)
	case *ast.ExprAssignConcat:
		return bin(".=", x.Var, x.Expr)
	case *ast.ExprAssignBitwiseAnd:
		return bin("&=", x.Var, x.Expr)
	case *ast.ExprAssignBitwiseOr:
		return bin("|=", x.Var, x.Expr)
	case *ast.ExprAssignBitwiseXor:
		return bin("^=", x.Var, x.Expr)
	case *ast.ExprAssignShiftLeft:
		return bin("<<=", x.Var, x.Expr)
	case *ast.ExprAssignShiftRight:
		return bin(">>=", x.Var, x.Expr)
	case *ast.ExprAssignCoalesce:
		return bin("??=", x.Var, x.Expr)
	case *ast.ExprTernary:
		return "(" + exprShape(x.Cond) + "?" + exprShape(x.IfTrue) + ":" + exprShape(x.IfFalse) + ")"
	case *ast.ExprInstanceOf:
		return "(" + exprShape(x.Expr) + " instanceof " + nameShape(x.Class) + ")"
	case *ast.ExprBooleanNot:
		return un("!", x.Expr)
	case *ast.ExprBitwiseNot:
		return un("~", x.Expr)
	case *ast.ExprUnaryMinus:
		return un("-", x.Expr)
	case *ast.ExprUnaryPlus:
		return un("+", x.Expr)
	case *ast.ExprErrorSuppress:
		return un("@", x.Expr)
	case *ast.ExprCastInt:
		return un("(int)", x.Expr)
	case *ast.ExprCastDouble:
		return un("(float)", x.Expr)
	case *ast.ExprCastString:
		return un("(string)", x.Expr)
	case *ast.ExprCastBool:
		return un("(bool)", x.Expr)
	case *ast.ExprCastArray:
		return un("(array)", x.Expr)
	case *ast.ExprCastObject:
		return un("(object)", x.Expr)
	case *ast.ExprCastUnset:
		return un("(unset)", x.Expr)
	case *ast.ExprPrint:
		return un("print ", x.Expr)
	case *ast.ExprClone:
		return un("clone ", x.Expr)
	case *ast.ExprPreInc:
		return un("++", x.Var)
	case *ast.ExprPreDec:
		return un("--", x.Var)
	case *ast.ExprPostInc:
		return "(" + exprShape(x.Var) + "++)"
	case *ast.ExprPostDec:
		return "(" + exprShape(x.Var) + "--)"
	case *ast.ExprYield:
		if !IsNilVertex(x.Key) {
			return "(yield " + exprShape(x.Key) + "=>" + exprShape(x.Val) + ")"
		}
		return un("yield ", x.Val)
	case *ast.ExprYieldFrom:
		return un("yield from ", x.Expr)
	}
	return "<" + kindName(KindOf(n)) + ">"
}

func firstExpr(root ast.Vertex) ast.Vertex {
	r, ok := root.(*ast.Root)
	if !ok || len(r.Stmts) == 0 {
		return nil
	}
	if s, ok := r.Stmts[0].(*ast.StmtExpression); ok {
		return s.Expr
	}
	return nil
}

// H_C03_Expr: the statement "<expr>;" must parse to the tree whose fully parenthesised
// rendering is "want" ("ERROR": PHP rejects it, e.g. chained non-associative operators).
func H_C03_Expr() {
	in, _ := BuildInput()
	major, minor := PickVersion()
	want := ParamStr("want")
	ObserveBytes("in", in)
	a := ParseWith(in, major, minor, true)
	Observe("nerr", len(a.Errs))
	what := ParamStr("what")
	if want == "ERROR" {
		if len(a.Errs) == 0 {
			Fail("C03:non-associative-chain-rejected", what)
		}
		Cover("checked")
		return
	}
	if len(a.Errs) != 0 || IsNilVertex(a.Root) {
		Fail("C03:valid-expression-accepted", what)
		return
	}
	got := exprShape(firstExpr(a.Root))
	if got != want {
		Fail("C03:operator-grouping", what+": parsed as "+got+", PHP groups it as "+want)
		return
	}
	Cover("checked")
}

// ---- dangling else -------------------------------------------------------------------

func stmtShape(n ast.Vertex) string {
	switch x := n.(type) {
	case *ast.StmtIf:
		s := "if(" + exprShape(x.Cond) + "){" + stmtShape(x.Stmt) + "}"
		for _, e := range x.ElseIf {
			if ei, ok := e.(*ast.StmtElseIf); ok {
				s += "elseif(" + exprShape(ei.Cond) + "){" + stmtShape(ei.Stmt) + "}"
			}
		}
		if el, ok := x.Else.(*ast.StmtElse); ok {
			s += "else{" + stmtShape(el.Stmt) + "}"
		}
		return s
	case *ast.StmtExpression:
		return exprShape(x.Expr) + ";"
	case *ast.StmtStmtList:
		s := ""
		for _, c := range x.Stmts {
			s += stmtShape(c)
		}
		return s
	case *ast.StmtWhile:
		return "while(" + exprShape(x.Cond) + "){" + stmtShape(x.Stmt) + "}"
	case *ast.StmtNop:
		return ";"
	}
	if IsNilVertex(n) {
		return ""
	}
	return "<" + kindName(KindOf(n)) + ">"
}

func H_C03_If() {
	in, _ := BuildInput()
	major, minor := PickVersion()
	want := ParamStr("want")
	ObserveBytes("in", in)
	a := ParseWith(in, major, minor, true)
	if len(a.Errs) != 0 || IsNilVertex(a.Root) {
		Fail("C03:valid-statement-accepted", ParamStr("what"))
		return
	}
	r, _ := a.Root.(*ast.Root)
	got := ""
	if r != nil {
		for _, s := range r.Stmts {
			got += stmtShape(s)
		}
	}
	if got != want {
		Fail("C03:else-binds-to-nearest-if", ParamStr("what")+": parsed as "+got+", PHP: "+want)
		return
	}
	Cover("checked")
}

// H_C03_Accept: a program the committed baseline accepts (the repository's own test
// snippets and one sentence per production of its grammar files) is still accepted.
func H_C03_Accept() {
	in, _ := BuildInput()
	major, minor := PickVersion()
	ObserveBytes("in", in)
	a := ParseWith(in, major, minor, true)
	Observe("nerr", len(a.Errs))
	if len(a.Errs) != 0 || IsNilVertex(a.Root) {
		msg := ""
		if len(a.Errs) > 0 {
			msg = a.Errs[0].Msg
		}
		Fail("C03:valid-program-accepted", ParamStr("origin")+": "+msg)
		return
	}
	Cover("accepted")
	// the tree of an accepted program holds every token of the program: the tokens reachable
	// from the root (free-floating ones included), in offset order, tile the source. A
	// construct that was parsed but not stored is not the tree the grammar prescribes.
	toks := mergeSortTokens(withPositions(TokensOf(a.Root, nil, true)))
	at := 0
	for _, t := range toks {
		if t.Position.StartPos != at {
			Fail("C03:tree-holds-every-token-of-the-program", "source text missing before "+t.ID.String())
			return
		}
		at = t.Position.EndPos
	}
	if at != len(in) {
		Fail("C03:tree-holds-every-token-of-the-program", "source text missing at the end")
		return
	}
}

// H_C03_Gate: version-specific syntax is accepted exactly under the versions that
// have it. The version is symbolic over the supported set.
func H_C03_Gate() {
	in := []byte(ParamStr("src"))
	minMajor, minMinor := uint64(ParamInt("minmajor")), uint64(ParamInt("minminor"))
	ma, mi := NondetUint64(), NondetUint64()
	Assume(Or(And(ma == 5, mi <= 6), And(ma == 7, mi <= 4)))
	a := parseAt(in, &version.Version{Major: ma, Minor: mi})
	has := Or(ma > minMajor, And(ma == minMajor, mi >= minMinor))
	accepted := len(a.Errs) == 0 && !IsNilVertex(a.Root)
	what := ParamStr("what")
	if accepted {
		Assert("C03:version-specific-syntax-rejected-before|"+what, has)
		Cover("accepted")
	} else {
		Assert("C03:version-specific-syntax-accepted-from|"+what, Not(has))
		Cover("rejected")
	}
}

func parseAt(in []byte, v *version.Version) *ParseOut {
	return ParseWith(in, v.Major, v.Minor, true)
}

// H_C03_Literal: the node kind a numeric literal becomes. pick = "expr": the expression
// of the first statement; "dim": the offset of the first interpolated array access of
// the first statement's string.
func H_C03_Literal() {
	in, _ := BuildInput()
	major, minor := PickVersion()
	ObserveBytes("in", in)
	a := ParseWith(in, major, minor, true)
	what := ParamStr("what")
	if len(a.Errs) != 0 || IsNilVertex(a.Root) {
		Fail("C03:valid-literal-accepted", what)
		return
	}
	e := firstExpr(a.Root)
	if ParamStr("pick") == "dim" {
		var parts []ast.Vertex
		switch s := e.(type) {
		case *ast.ScalarEncapsed:
			parts = s.Parts
		case *ast.ScalarHeredoc:
			parts = s.Parts
		case *ast.ExprShellExec:
			parts = s.Parts
		}
		e = nil
		for _, p := range parts {
			if d, ok := p.(*ast.ExprArrayDimFetch); ok {
				e = d.Dim
				break
			}
		}
	}
	got := "nothing"
	if !IsNilVertex(e) {
		got = kindName(KindOf(e))
		if m, ok := e.(*ast.ExprUnaryMinus); ok && !IsNilVertex(m.Expr) {
			got = "ExprUnaryMinus(" + kindName(KindOf(m.Expr)) + ")"
		}
	}
	if got != ParamStr("want") {
		Fail("C03:literal-kind", what+": "+got+" instead of "+ParamStr("want"))
		return
	}
	// the value is the source text
	var val []byte
	switch x := e.(type) {
	case *ast.ScalarLnumber:
		val = x.Value
	case *ast.ScalarDnumber:
		val = x.Value
	case *ast.ScalarString:
		val = x.Value
	}
	if val != nil {
		lit := []byte(ParamStr("text"))
		if len(val) != len(lit) {
			Fail("C03:literal-text-verbatim", what)
			return
		}
		Assert("C03:literal-text-verbatim|"+what, BytesEq(val, lit))
	}
	Cover("checked")
}
