package main

// Properties decided on program shapes from the corpus: C05 (positions), C08
// (trivia independence), C10 (PHP 5 / PHP 7 agreement).

import (
	"github.com/z7zmey/php-parser/pkg/ast"
	"github.com/z7zmey/php-parser/pkg/token"
)

func init() {
	Register("H_C05", H_C05)
	Register("H_C08", H_C08)
	Register("H_C10", H_C10)
}

// ---- C05 ---------------------------------------------------------------------------

type span struct {
	start, end         int // min start / max end over the significant tokens (-1: none)
	startLine, endLine int
	n                  int
}

func (s *span) add(t *token.Token) {
	if t == nil || t.Position == nil {
		return
	}
	p := t.Position
	if s.n == 0 || p.StartPos < s.start {
		s.start, s.startLine = p.StartPos, p.StartLine
	}
	if s.n == 0 || p.EndPos > s.end {
		s.end, s.endLine = p.EndPos, p.EndLine
	}
	s.n++
}

func (s *span) merge(o span) {
	if o.n == 0 {
		return
	}
	if s.n == 0 || o.start < s.start {
		s.start, s.startLine = o.start, o.startLine
	}
	if s.n == 0 || o.end > s.end {
		s.end, s.endLine = o.end, o.endLine
	}
	s.n += o.n
}

// excluded tokens by convention: (kind, slot)
func conventionExcludes(kind, slot string) bool {
	switch kind {
	case "Root":
		return slot == "EndTkn"
	case "StmtTraitUseAlias", "StmtTraitUsePrecedence":
		return slot == "SemiColonTkn"
	}
	return false
}

// openEnd reports whether the node's last child slot (declaration order) is an empty
// list or a child whose own EndPos is -1: the only places where -1 may stand for the
// end. openStart is the mirror image.
func openEnd(n ast.Vertex) bool {
	sl := SlotsOf(n)
	for i := len(sl) - 1; i >= 0; i-- {
		switch sl[i].Kind {
		case SVertexList:
			if len(sl[i].VL) == 0 {
				return true
			}
			last := sl[i].VL[len(sl[i].VL)-1]
			p := last.GetPosition()
			return p != nil && p.EndPos == -1
		case SVertex:
			if IsNilVertex(sl[i].V) {
				continue
			}
			p := sl[i].V.GetPosition()
			return p != nil && p.EndPos == -1
		}
	}
	return false
}

func openStart(n ast.Vertex) bool {
	sl := SlotsOf(n)
	for i := 0; i < len(sl); i++ {
		switch sl[i].Kind {
		case SVertexList:
			if len(sl[i].VL) == 0 {
				return true
			}
			p := sl[i].VL[0].GetPosition()
			return p != nil && p.StartPos == -1
		case SVertex:
			if IsNilVertex(sl[i].V) {
				continue
			}
			p := sl[i].V.GetPosition()
			return p != nil && p.StartPos == -1
		}
	}
	return false
}

type posChecker struct {
	grammar  string
	fails    int
	newClass int // > 0 while inside the class reference of a new expression
	lines    []int // line of every offset by the independent definition (LineTable)
	linesOK  bool  // conjunction of "recorded line == line of the recorded offset" (may be symbolic)
}

func (pc *posChecker) fail(id, kind, parent, what string) {
	if pc.fails < 8 {
		ctx := ""
		if pc.newClass > 0 {
			ctx = " (inside the class reference of new)"
		}
		Fail(id, pc.grammar+" "+kind+" in "+parent+ctx+": "+what)
	}
	pc.fails++
}

// check returns the token span of n's subtree and asserts n's own position.
func (pc *posChecker) check(n ast.Vertex, parent string) span {
	var sp span
	if IsNilVertex(n) {
		return sp
	}
	kind := kindName(KindOf(n))
	var pos = n.GetPosition()
	lastChildEnd := -1
	for _, sl := range SlotsOf(n) {
		var kids []ast.Vertex
		switch sl.Kind {
		case SToken:
			if !conventionExcludes(kind, sl.Name) {
				sp.add(sl.T)
			}
		case STokenList:
			for _, t := range sl.TL {
				sp.add(t)
			}
		case SVertex:
			if !IsNilVertex(sl.V) {
				kids = []ast.Vertex{sl.V}
			}
		case SVertexList:
			kids = sl.VL
		}
		for _, k := range kids {
			inNewClass := kind == "ExprNew" && sl.Name == "Class"
			if inNewClass {
				pc.newClass++
			}
			ks := pc.check(k, kind)
			if inNewClass {
				pc.newClass--
			}
			sp.merge(ks)
			kp := k.GetPosition()
			if kp == nil || pos == nil {
				continue
			}
			// children lie within the parent, siblings are ordered and disjoint
			if kp.StartPos >= 0 && pos.StartPos >= 0 && kp.StartPos < pos.StartPos {
				pc.fail("C05:child-within-parent", "child "+sl.Name, kind, "starts before its parent")
			}
			if kp.EndPos >= 0 && pos.EndPos >= 0 && kp.EndPos > pos.EndPos {
				pc.fail("C05:child-within-parent", "child "+sl.Name, kind, "ends after its parent")
			}
			if kp.StartPos >= 0 && kp.StartPos < lastChildEnd {
				pc.fail("C05:siblings-ordered-disjoint", "child "+sl.Name, kind, "overlaps or precedes its left sibling")
			}
			if kp.EndPos >= 0 {
				lastChildEnd = kp.EndPos
			}
		}
	}
	if pos == nil {
		if sp.n != 0 {
			pc.fail("C05:position-present", kind, parent, "node with tokens has no position")
		}
		return sp
	}
	if sp.n == 0 {
		// no token of its own anywhere below: only -1/-1 or nothing is meaningful
		return sp
	}
	// the line fields are the lines of the offsets (independent, non-forking line count:
	// LF, CRLF and a lone CR each end one line)
	if pc.lines != nil {
		if pos.StartPos >= 0 && pos.StartPos < len(pc.lines) {
			pc.linesOK = And(pc.linesOK, pos.StartLine == pc.lines[pos.StartPos])
		}
		if pos.EndPos > 0 && pos.EndPos > pos.StartPos && pos.EndPos-1 < len(pc.lines) {
			pc.linesOK = And(pc.linesOK, pos.EndLine == pc.lines[pos.EndPos-1])
		}
	}
	if pos.StartPos == -1 {
		if !openStart(n) {
			pc.fail("C05:start", kind, parent, "-1 without an empty leading list")
		}
	} else {
		if pos.StartPos != sp.start {
			pc.fail("C05:start", kind, parent, "start offset is not the start of the first token")
		} else if pos.StartLine != sp.startLine {
			pc.fail("C05:start-line", kind, parent, "start line is not the line of the first token")
		}
	}
	if pos.EndPos == -1 {
		if !openEnd(n) {
			pc.fail("C05:end", kind, parent, "-1 without an empty trailing list")
		}
	} else {
		if pos.EndPos != sp.end {
			pc.fail("C05:end", kind, parent, "end offset is not the end of the last token")
		} else if pos.EndLine != sp.endLine {
			pc.fail("C05:end-line", kind, parent, "end line is not the line of the last token")
		}
	}
	return sp
}

func grammarName(major uint64) string {
	if major == 5 {
		return "php5"
	}
	return "php7"
}

func H_C05() {
	in, _ := BuildInput()
	major, minor := PickVersion()
	ObserveBytes("in", in)
	a := ParseWith(in, major, minor, true)
	Observe("nerr", len(a.Errs))
	if len(a.Errs) != 0 || IsNilVertex(a.Root) {
		Cover("discarded:errors-reported")
		return
	}
	pc := &posChecker{grammar: grammarName(major), lines: LineTable(in), linesOK: true}
	pc.check(a.Root, "-")
	Assert("C05:lines-are-the-lines-of-the-offsets", pc.linesOK)
	Cover("error-free")
}

// ---- C08 ---------------------------------------------------------------------------

func holeHasLoneCR(in []byte, hole []bool) bool {
	for i := range in {
		if hole[i] && in[i] == '\r' && (i+1 >= len(in) || in[i+1] != '\n') {
			return true
		}
	}
	return false
}

func H_C08() {
	base := []byte(ParamStr("base"))
	in, hole := BuildInput()
	major, minor := PickVersion()
	ObserveBytes("in", in)
	b := ParseWith(base, major, minor, true)
	if len(b.Errs) != 0 || IsNilVertex(b.Root) {
		Cover("discarded:baseline-not-accepted")
		return
	}
	a := ParseWith(in, major, minor, true)
	Observe("nerr", len(a.Errs))
	if len(a.Errs) != 0 || IsNilVertex(a.Root) {
		why := "error reported"
		if len(a.Errs) > 0 && hasPrefixStr(a.Errs[0].Msg, "WARNING: Unexpected character") {
			why = "a trivia byte is rejected as an unexpected character"
			if holeHasLoneCR(in, hole) {
				why = "a lone CR between tokens is rejected as an unexpected character"
			}
		} else if len(a.Errs) > 0 && hasPrefixStr(a.Errs[0].Msg, "syntax error") {
			why = "syntax error with " + ParamStr("trivia")
		}
		Fail("C08:trivia-keeps-program-valid", why+" ("+ctxName(ParamStr("ctx"))+")")
		return
	}
	eq, diff := TreeEq(a.Root, b.Root, CmpTokens)
	if diff != "" {
		where := ctxName(ParamStr("ctx"))
		if ParamStr("ctx") != "" {
			// in the special contexts the kind of trivia is part of what fails
			where += ", " + ParamStr("trivia")
		}
		Fail("C08:trivia-keeps-structure", shortDiffC(diff)+" ("+where+")")
	} else {
		Assert("C08:trivia-keeps-structure", eq)
	}
	Cover("compared")
}

// ctxName: coarse description of the token before the gap (used in signatures so that
// the known halt-compiler finding does not cover anything else).
func ctxName(ctx string) string {
	if ctx == "halt-compiler-head" {
		return "between __halt_compiler and its ';'"
	}
	if ctx == "semicolon-close-tag" {
		return "between ';' and a close tag"
	}
	if ctx == "after-heredoc-label" {
		return "after the ';' that follows a heredoc label"
	}
	return "between ordinary tokens"
}

// ---- C10 ---------------------------------------------------------------------------

func H_C10() {
	in, _ := BuildInput()
	ObserveBytes("in", in)
	a := ParseWith(in, 5, 6, true)
	b := ParseWith(in, 7, 2, true)
	Observe("nerr5", len(a.Errs))
	Observe("nerr7", len(b.Errs))
	if len(a.Errs) != 0 || len(b.Errs) != 0 || IsNilVertex(a.Root) || IsNilVertex(b.Root) {
		Cover("discarded:not-accepted-by-both")
		return
	}
	if why := notSharedSyntax(lexAll(in, 7, 2)); why != "" {
		Cover("discarded:" + why)
		return
	}
	eq, diff := TreeEq(a.Root, b.Root, CmpTokens|CmpFreeFloat|CmpPositions)
	if diff != "" {
		Fail("C10:same-tree-under-5-and-7", shortDiffC(diff))
	} else {
		Assert("C10:same-tree-under-5-and-7", eq)
	}
	Cover("compared")
}

// notSharedSyntax recognises, on the token stream, constructs whose grouping changed
// with PHP 7's uniform variable syntax (so PHP 5 and PHP 7 legitimately differ).
func notSharedSyntax(toks []*token.Token) string {
	for i, t := range toks {
		next := func(k int) token.ID {
			if i+k < len(toks) {
				return toks[i+k].ID
			}
			return 0
		}
		switch {
		case t.ID == token.ID('$') && (next(1) == token.ID('$') || next(1) == token.T_VARIABLE || next(1) == token.ID('{')):
			return "variable-variable"
		case t.ID == token.T_PAAMAYIM_NEKUDOTAYIM && (next(1) == token.ID('$') || next(1) == token.T_VARIABLE):
			for k := 2; k < 4; k++ {
				if next(k) == token.ID('[') || next(k) == token.ID('(') || next(k) == token.ID('{') || next(k) == token.T_OBJECT_OPERATOR || next(k) == token.T_PAAMAYIM_NEKUDOTAYIM {
					return "static-member-chain"
				}
			}
		case t.ID == token.T_OBJECT_OPERATOR && next(1) == token.ID('$'):
			return "dynamic-member-name"
		case t.ID == token.T_OBJECT_OPERATOR && next(1) == token.T_VARIABLE && (next(2) == token.ID('[') || next(2) == token.ID('{')):
			// "$a->$b['c']": PHP 5 reads $a->{$b['c']}, PHP 7 ($a->$b)['c']. A member name in
			// braces ("$a->{'b'}[0]") and a plain "$a->$b" / "$a->$b()" mean the same in both
			return "dynamic-member-name"
		case t.ID == token.T_NEW:
			for k := 1; i+k < len(toks) && k < 12; k++ {
				id := next(k)
				if id == token.T_OBJECT_OPERATOR || id == token.T_PAAMAYIM_NEKUDOTAYIM || id == token.ID('[') || id == token.ID('{') {
					return "new-with-member-chain"
				}
				if id == token.ID('(') || id == token.ID(';') || id == token.ID(')') || id == token.ID(',') {
					break
				}
			}
		case t.ID == token.T_GLOBAL && next(1) == token.ID('$'):
			return "global-variable-variable"
		case t.ID == token.T_YIELD:
			return "yield"
		case t.ID == token.T_LIST && next(1) == token.ID('(') && next(2) == token.ID(')'):
			return "empty-list"
		}
	}
	return ""
}

// shortDiffC keeps the last two path segments of a tree difference (parent slot and
// node), so that the same deviation is one signature wherever the construct stands.
func shortDiffC(d string) string {
	colon := len(d)
	for i := 0; i < len(d); i++ {
		if d[i] == ':' {
			colon = i
			break
		}
	}
	var slashes []int
	for i := 0; i < colon; i++ {
		if d[i] == '/' {
			slashes = append(slashes, i)
		}
	}
	if len(slashes) < 2 {
		return d
	}
	return d[slashes[len(slashes)-2]+1:]
}
