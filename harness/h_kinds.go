package main

// Synthetic nodes of every kind with marker content (shape S8), shared by the
// per-kind checks C12, C15, C16.

import (
	"github.com/z7zmey/php-parser/pkg/ast"
	"github.com/z7zmey/php-parser/pkg/position"
	"github.com/z7zmey/php-parser/pkg/token"
)

type Synth struct {
	Kind  int
	N     ast.Vertex
	Slots []Slot // as stored
}

func itoa(n int) string {
	if n == 0 {
		return "0"
	}
	neg := n < 0
	if neg {
		n = -n
	}
	var b []byte
	for n > 0 {
		b = append([]byte{byte('0' + n%10)}, b...)
		n /= 10
	}
	if neg {
		b = append([]byte{'-'}, b...)
	}
	return string(b)
}

var markerSeq int

// synthMaxList: longest child list built (2 by default; the printer check uses 3 to
// reach separator lists that are shorter than the gaps). synthFixed: no choices at all
// (everything present, lists of two, separators between the items).
var synthMaxList = 2
var synthFixed bool

// synthValueSuffix is appended to every byte value and token text (C16: quoting of
// bytes that are not printable ASCII).
var synthValueSuffix string

func mkPos(seed int) *position.Position {
	return &position.Position{StartLine: 1000 + seed, EndLine: 2000 + seed, StartPos: 3000 + seed, EndPos: 4000 + seed}
}

func mkTok(name string, seed int) *token.Token {
	return &token.Token{
		ID:       token.T_STRING,
		Value:    []byte("[" + name + "]" + synthValueSuffix),
		Position: mkPos(seed),
		FreeFloating: []*token.Token{
			{ID: token.T_WHITESPACE, Value: []byte("[f" + name + "]" + synthValueSuffix), Position: mkPos(seed + 500)},
		},
	}
}

// synthMarkerKind selects the (leaf) kind of the marker children: a visitor method
// must not depend on the kind of node it finds in a slot.
var synthMarkerKind int

func mkMarkerNode(name string, seed int) ast.Vertex {
	switch synthMarkerKind {
	case 1:
		return &ast.ScalarLnumber{Position: mkPos(seed), NumberTkn: mkTok(name, seed), Value: []byte("[" + name + "]")}
	case 2:
		return &ast.NamePart{Position: mkPos(seed), StringTkn: mkTok(name, seed), Value: []byte("[" + name + "]")}
	case 3:
		return &ast.ScalarMagicConstant{Position: mkPos(seed), MagicConstTkn: mkTok(name, seed), Value: []byte("[" + name + "]")}
	}
	return &ast.Identifier{Position: mkPos(seed), IdentifierTkn: mkTok(name, seed), Value: []byte("[" + name + "]")}
}

// slot configurations: cfg < 0 selects by Choose among
//
//	0: everything present   1: everything absent
//	2+2i: only slot i absent   3+2i: only slot i present
//
// and, when the kind has at most fullMax variable slots, the full product instead.
const fullMax = 6

// BuildSynth builds a node of kind k. vary: which slot kinds are varied (others are
// always present): bit 0 children, bit 1 tokens, bit 2 value/position.
func BuildSynth(k int, vary int) *Synth {
	s := &Synth{Kind: k, N: NewKind(k)}
	kinds := KindSlotKinds[k]
	names := KindSlotNames[k]
	var varIdx []int
	for i, sk := range kinds {
		switch sk {
		case SVertex, SVertexList:
			if vary&1 != 0 {
				varIdx = append(varIdx, i)
			}
		case SToken, STokenList:
			if vary&2 != 0 && sk == SToken {
				varIdx = append(varIdx, i)
			}
		case SBytes, SPosition:
			if vary&4 != 0 {
				varIdx = append(varIdx, i)
			}
		}
	}
	present := make([]bool, len(kinds))
	for i := range present {
		present[i] = true
	}
	if synthFixed {
		// all present
	} else if len(varIdx) <= fullMax {
		for _, i := range varIdx {
			present[i] = NondetBool()
		}
	} else {
		c := Choose(2 + 2*len(varIdx))
		switch {
		case c == 0:
		case c == 1:
			for _, i := range varIdx {
				present[i] = false
			}
		case c%2 == 0:
			present[varIdx[(c-2)/2]] = false
		default:
			for _, i := range varIdx {
				present[i] = false
			}
			present[varIdx[(c-3)/2]] = true
		}
	}
	listLen := -1
	for i, sk := range kinds {
		sl := Slot{Name: names[i], Kind: sk}
		seed := 10 * (i + 1)
		if present[i] {
			switch sk {
			case SVertex:
				sl.V = mkMarkerNode("n"+itoa(i), seed)
			case SVertexList:
				n := 2
				if !synthFixed {
					n = 1 + Choose(synthMaxList)
				}
				for j := 0; j < n; j++ {
					sl.VL = append(sl.VL, mkMarkerNode("n"+itoa(i)+"."+itoa(j), seed+j))
				}
				listLen = n
			case SToken:
				sl.T = mkTok("t"+itoa(i), seed)
			case STokenList:
				// separators of the preceding list: len-1, len (trailing), none, or
				// (three items) only the first one
				n := 0
				if synthFixed {
					n = listLen - 1
				} else if listLen > 0 {
					opts := 3
					if listLen == 3 {
						opts = 4
					}
					switch Choose(opts) {
					case 0:
						n = listLen - 1
					case 1:
						n = listLen
					case 3:
						n = 1
					}
				}
				if n < 0 {
					n = 0
				}
				sl.TL = []*token.Token{}
				for j := 0; j < n; j++ {
					sl.TL = append(sl.TL, mkTok("t"+itoa(i)+"."+itoa(j), seed+j))
				}
			case SBytes:
				sl.B = []byte("(v" + itoa(i) + ")" + synthValueSuffix) // not a [marker]: the printer may use it as the lexeme of an absent token
			case SPosition:
				sl.P = mkPos(seed)
			}
		} else if sk == SVertexList {
			if !synthFixed && NondetBool() {
				sl.VL = []ast.Vertex{}
			}
			listLen = 0
		}
		if sk != SVertexList && sk != STokenList {
			// keep listLen only for the token list that directly follows a list
			if sk != STokenList {
				listLen = -1
			}
		}
		SetSlot(s.N, i, sl)
		s.Slots = append(s.Slots, sl)
	}
	return s
}
