package token

// Verification hooks (overlay only, never part of /repo): construct a pool in an
// arbitrary state and observe its private fields.

func ZZPoolAt(n, off int) *Pool     { return &Pool{block: make([]Token, n), off: off} }
func (p *Pool) ZZOff() int          { return p.off }
func (p *Pool) ZZLen() int          { return len(p.block) }
func (p *Pool) ZZAddr(j int) *Token { return &p.block[j] }

// ZZOwns reports whether t points into the pool's current block (native replay only).
func (p *Pool) ZZOwns(t *Token) bool {
	for i := range p.block {
		if &p.block[i] == t {
			return true
		}
	}
	return false
}
