package position

// Verification hooks (overlay only, never part of /repo).

func ZZPoolAt(n, off int) *Pool        { return &Pool{block: make([]Position, n), off: off} }
func (p *Pool) ZZOff() int             { return p.off }
func (p *Pool) ZZLen() int             { return len(p.block) }
func (p *Pool) ZZAddr(j int) *Position { return &p.block[j] }

// ZZOwns reports whether t points into the pool's current block (native replay only).
func (p *Pool) ZZOwns(t *Position) bool {
	for i := range p.block {
		if &p.block[i] == t {
			return true
		}
	}
	return false
}
