package position

import "github.com/z7zmey/php-parser/pkg/position"

// Verification hooks (overlay only, never part of /repo).

func (b *Builder) ZZPool() *position.Pool { return b.pool }
