package scanner

import (
	"github.com/z7zmey/php-parser/pkg/conf"
	"github.com/z7zmey/php-parser/pkg/position"
	"github.com/z7zmey/php-parser/pkg/token"
)

// Verification hooks (overlay only, never part of /repo).

func (lex *Lexer) ZZPools() (*token.Pool, *position.Pool) { return lex.tokenPool, lex.positionPool }

// ZZNewLines builds a NewLines table holding exactly the given line starts.
func ZZNewLines(data []int) *NewLines { return &NewLines{data: data} }

// ZZData exposes the recorded line starts.
func (nl *NewLines) ZZData() []int { return nl.data }

// ZZEntryStates lists the entry states of the scanner's sub-machines: the only values lex.cs
// and the entries of lex.stack take between two calls of Lex.
var ZZEntryStates = []int{
	lexer_en_main, lexer_en_html, lexer_en_php, lexer_en_property, lexer_en_nowdoc, lexer_en_heredoc,
	lexer_en_backqote, lexer_en_template_string, lexer_en_heredoc_end, lexer_en_string_var,
	lexer_en_string_var_index, lexer_en_string_var_name, lexer_en_halt_compiller_open_parenthesis,
	lexer_en_halt_compiller_close_parenthesis, lexer_en_halt_compiller_close_semicolon, lexer_en_halt_compiller_end,
}

var ZZEntryNames = []string{
	"main", "html", "php", "property", "nowdoc", "heredoc", "backqote", "template_string", "heredoc_end", "string_var",
	"string_var_index", "string_var_name", "halt_compiller_open_parenthesis", "halt_compiller_close_parenthesis",
	"halt_compiller_close_semicolon", "halt_compiller_end",
}

// ZZLexerAt puts a fresh lexer over data into the between-tokens state (cs, p, stack[:top],
// heredoc label); everything else is as NewLexer leaves it.
func ZZLexerAt(data []byte, cfg conf.Config, cs, p int, stack []int, label []byte) *Lexer {
	lex := NewLexer(data, cfg)
	lex.cs = cs
	lex.p = p
	lex.stack = append(lex.stack, stack...)
	lex.top = len(stack)
	lex.heredocLabel = label
	return lex
}

// ZZState returns the between-tokens state.
func (lex *Lexer) ZZState() (cs, p, pe, top int, stack []int, label []byte) {
	return lex.cs, lex.p, lex.pe, lex.top, lex.stack, lex.heredocLabel
}

// ZZIsHeredocEnd is the lexer's own closing-label test at offset p (for PHP >= 7.3 a positive
// answer also moves the cursor past the indentation, exactly as during scanning).
func (lex *Lexer) ZZIsHeredocEnd(p int) bool { return lex.isHeredocEnd(p) }
