package scanner

import (
	"github.com/z7zmey/php-parser/pkg/position"
	"github.com/z7zmey/php-parser/pkg/token"
)

// Verification hooks (overlay only, never part of /repo).

func (lex *Lexer) ZZPools() (*token.Pool, *position.Pool) { return lex.tokenPool, lex.positionPool }
