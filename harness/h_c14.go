package main

// C14: the namespace resolver against a reference resolver written from the PHP
// manual ("Name resolution rules", "Using namespaces: Aliasing/Importing"). Both run
// on the same parsed tree; identifiers of the program are symbolic letters, so which
// reference matches which alias (exactly, up to case, or not at all) is the solver's
// choice, not the template author's.
//
// Reference (N = current namespace, "" = global; q(x) = x if N == "" else N\x):
//  1. declarations: class, interface, trait, function, namespace-level const -> q(name)
//  2. reference kinds: class-like (extends, implements, new, the class operand of ::,
//     instanceof, catch types, parameter/return/property types through '?', trait use
//     lists and the trait operands of insteadof/as), function (name of a call), const
//     (constant fetch)
//  3. forms: \A\B -> A\B; namespace\A\B -> q(A\B); qualified A\B: class alias of
//     lower(A) + \B, else q(A\B); unqualified A of kind k: the k alias (key lower(A)
//     for class and function, A itself for const), else q(A)
//  4. imports: use / use function / use const, group and mixed group forms with the
//     prefix prepended, alias = 'as' name or the last segment; tables are reset by
//     every namespace declaration and at the end of a bracketed namespace
//  5. special names (self parent static int float bool string void iterable object in
//     class-like positions, true false null in const positions; any letter case) are
//     never prefixed or alias-resolved: if the map has an entry for one it has no
//     backslash and equals the written name up to case.

import (
	"github.com/z7zmey/php-parser/pkg/ast"
	"github.com/z7zmey/php-parser/pkg/visitor/nsresolver"
	"github.com/z7zmey/php-parser/pkg/visitor/traverser"
)

func init() { Register("H_C14", H_C14) }

const (
	refClass = iota
	refFunc
	refConst
)

type refAlias struct{ key, target string }

type refEntry struct {
	n       ast.Vertex
	name    string
	special bool
	where   string
}

type refResolver struct {
	ns            string
	cls, fn, cst  []refAlias
	out           []refEntry
	duplicateUse  bool
	unknownUseTyp bool
}

func lowerByte(c byte) byte {
	return IteByte(And(c >= 'A', c <= 'Z'), c+32, c)
}

func lowerS(s string) string {
	b := make([]byte, len(s))
	for i := 0; i < len(s); i++ {
		b[i] = lowerByte(s[i])
	}
	return string(b)
}

func partStr(p ast.Vertex) string {
	if np, ok := p.(*ast.NamePart); ok {
		return string(np.Value)
	}
	return "?"
}

func joinParts(ps []ast.Vertex) string {
	s := ""
	for i, p := range ps {
		if i > 0 {
			s += "\\"
		}
		s += partStr(p)
	}
	return s
}

func identStr(n ast.Vertex) string {
	if id, ok := n.(*ast.Identifier); ok {
		return string(id.Value)
	}
	return ""
}

func (r *refResolver) q(x string) string {
	if r.ns == "" {
		return x
	}
	return r.ns + "\\" + x
}

func lookupAlias(tab []refAlias, key string) (string, bool) {
	for i := len(tab) - 1; i >= 0; i-- {
		if len(tab[i].key) == len(key) && tab[i].key == key {
			return tab[i].target, true
		}
	}
	return "", false
}

func (r *refResolver) addUse(listType string, prefix []ast.Vertex, u ast.Vertex) {
	use, ok := u.(*ast.StmtUse)
	if !ok {
		return
	}
	typ := listType
	if !IsNilVertex(use.Type) {
		typ = identStr(use.Type)
	}
	name, ok := use.Use.(*ast.Name)
	if !ok || len(name.Parts) == 0 {
		return
	}
	target := joinParts(name.Parts)
	if len(prefix) > 0 {
		target = joinParts(prefix) + "\\" + target
	}
	alias := partStr(name.Parts[len(name.Parts)-1])
	if !IsNilVertex(use.Alias) {
		alias = identStr(use.Alias)
	}
	var tab *[]refAlias
	key := alias
	switch lowerS(typ) {
	case "":
		tab, key = &r.cls, lowerS(alias)
	case "function":
		tab, key = &r.fn, lowerS(alias)
	case "const":
		tab = &r.cst
	default:
		r.unknownUseTyp = true
		return
	}
	if _, dup := lookupAlias(*tab, key); dup {
		// "Cannot use X as Y because the name is already in use": not a valid program
		r.duplicateUse = true
	}
	*tab = append(*tab, refAlias{key, target})
}

func isSpecialClassName(lw string) bool {
	switch lw {
	case "self", "parent", "static", "int", "float", "bool", "string", "void", "iterable", "object":
		return true
	}
	return false
}

func (r *refResolver) add(n ast.Vertex, name, where string) {
	r.out = append(r.out, refEntry{n: n, name: name, where: where})
}

func (r *refResolver) ref(kind int, n ast.Vertex, where string) {
	switch x := n.(type) {
	case *ast.NameFullyQualified:
		r.add(n, joinParts(x.Parts), where+" fully-qualified")
	case *ast.NameRelative:
		r.add(n, r.q(joinParts(x.Parts)), where+" namespace-relative")
	case *ast.Name:
		if len(x.Parts) == 0 {
			return
		}
		first := partStr(x.Parts[0])
		lw := lowerS(first)
		if len(x.Parts) == 1 {
			if kind == refClass && isSpecialClassName(lw) {
				r.out = append(r.out, refEntry{n: n, name: first, special: true, where: where + " special"})
				return
			}
			if kind == refConst && (lw == "true" || lw == "false" || lw == "null") {
				r.out = append(r.out, refEntry{n: n, name: first, special: true, where: where + " special"})
				return
			}
			var t string
			var ok bool
			switch kind {
			case refClass:
				t, ok = lookupAlias(r.cls, lw)
			case refFunc:
				t, ok = lookupAlias(r.fn, lw)
			case refConst:
				t, ok = lookupAlias(r.cst, first)
			}
			if ok {
				r.add(n, t, where+" unqualified(alias)")
			} else {
				r.add(n, r.q(first), where+" unqualified")
			}
			return
		}
		if t, ok := lookupAlias(r.cls, lw); ok {
			r.add(n, t+"\\"+joinParts(x.Parts[1:]), where+" qualified(alias)")
		} else {
			r.add(n, r.q(joinParts(x.Parts)), where+" qualified")
		}
	}
}

func (r *refResolver) typeRef(n ast.Vertex, where string) {
	if nl, ok := n.(*ast.Nullable); ok {
		r.typeRef(nl.Expr, where)
		return
	}
	r.ref(refClass, n, where)
}

func (r *refResolver) decl(n ast.Vertex, name ast.Vertex, where string) {
	if IsNilVertex(name) {
		return
	}
	r.add(n, r.q(identStr(name)), where)
}

func (r *refResolver) walk(n ast.Vertex) {
	if IsNilVertex(n) {
		return
	}
	switch x := n.(type) {
	case *ast.StmtNamespace:
		r.ns = ""
		if nm, ok := x.Name.(*ast.Name); ok {
			r.ns = joinParts(nm.Parts)
		}
		r.cls, r.fn, r.cst = nil, nil, nil
		for _, s := range x.Stmts {
			r.walk(s)
		}
		if x.OpenCurlyBracketTkn != nil {
			r.ns = ""
			r.cls, r.fn, r.cst = nil, nil, nil
		}
		return
	case *ast.StmtUseList:
		for _, u := range x.Uses {
			r.addUse(identStr(x.Type), nil, u)
		}
		return
	case *ast.StmtGroupUseList:
		var prefix []ast.Vertex
		if p, ok := x.Prefix.(*ast.Name); ok {
			prefix = p.Parts
		}
		for _, u := range x.Uses {
			r.addUse(identStr(x.Type), prefix, u)
		}
		return
	case *ast.StmtClass:
		// an anonymous class (new class ... {}) declares nothing
		if _, named := x.Name.(*ast.Identifier); named {
			r.decl(n, x.Name, "declaration class")
		}
		r.ref(refClass, x.Extends, "extends")
		for _, i := range x.Implements {
			r.ref(refClass, i, "implements")
		}
	case *ast.StmtInterface:
		r.decl(n, x.Name, "declaration interface")
		for _, i := range x.Extends {
			r.ref(refClass, i, "interface-extends")
		}
	case *ast.StmtTrait:
		r.decl(n, x.Name, "declaration trait")
	case *ast.StmtFunction:
		r.decl(n, x.Name, "declaration function")
		r.typeRef(x.ReturnType, "return-type")
	case *ast.StmtClassMethod:
		r.typeRef(x.ReturnType, "method-return-type")
	case *ast.ExprClosure:
		r.typeRef(x.ReturnType, "closure-return-type")
	case *ast.ExprArrowFunction:
		r.typeRef(x.ReturnType, "arrow-fn-return-type")
	case *ast.Parameter:
		r.typeRef(x.Type, "parameter-type")
	case *ast.StmtPropertyList:
		r.typeRef(x.Type, "property-type")
	case *ast.StmtConstList:
		for _, c := range x.Consts {
			if cc, ok := c.(*ast.StmtConstant); ok {
				r.decl(c, cc.Name, "declaration const")
			}
		}
	case *ast.ExprStaticCall:
		r.ref(refClass, x.Class, "static-call")
	case *ast.ExprStaticPropertyFetch:
		r.ref(refClass, x.Class, "static-property")
	case *ast.ExprClassConstFetch:
		r.ref(refClass, x.Class, "class-constant")
	case *ast.ExprNew:
		r.ref(refClass, x.Class, "new")
	case *ast.ExprInstanceOf:
		r.ref(refClass, x.Class, "instanceof")
	case *ast.StmtCatch:
		for _, t := range x.Types {
			r.ref(refClass, t, "catch")
		}
	case *ast.ExprFunctionCall:
		r.ref(refFunc, x.Function, "function-call")
	case *ast.ExprConstFetch:
		r.ref(refConst, x.Const, "constant-fetch")
	case *ast.StmtTraitUse:
		for _, t := range x.Traits {
			r.ref(refClass, t, "trait-use")
		}
	case *ast.StmtTraitUsePrecedence:
		r.ref(refClass, x.Trait, "trait-precedence")
		for _, t := range x.Insteadof {
			r.ref(refClass, t, "trait-insteadof")
		}
	case *ast.StmtTraitUseAlias:
		r.ref(refClass, x.Trait, "trait-alias")
	}
	for _, s := range SlotsOf(n) {
		switch s.Kind {
		case SVertex:
			r.walk(s.V)
		case SVertexList:
			for _, c := range s.VL {
				r.walk(c)
			}
		}
	}
}

func hasBackslash(s string) bool {
	for i := 0; i < len(s); i++ {
		if s[i] == '\\' {
			return true
		}
	}
	return false
}

func H_C14() {
	in, _ := BuildInput()
	major, minor := PickVersion()
	ObserveBytes("in", in)
	a := ParseWith(in, major, minor, true)
	Observe("nerr", len(a.Errs))
	if len(a.Errs) != 0 || IsNilVertex(a.Root) {
		Cover("discarded:not-accepted")
		return
	}
	nsr := nsresolver.NewNamespaceResolver()
	traverser.NewTraverser(nsr).Traverse(a.Root)

	r := &refResolver{}
	r.walk(a.Root)
	if r.duplicateUse {
		Cover("discarded:alias-declared-twice")
		return
	}
	if r.unknownUseTyp {
		Cover("discarded:unknown-use-type")
		return
	}
	Observe("refs", len(r.out))
	found := 0
	for _, e := range r.out {
		v, ok := nsr.ResolvedNames[e.n]
		if e.special {
			Cover("special-name")
			if !ok {
				continue
			}
			found++
			if len(v) != len(e.name) || hasBackslash(v) {
				Fail("C14:special-name-left-unqualified", e.where)
				continue
			}
			Assert("C14:special-name-left-unqualified|"+e.where, lowerS(v) == lowerS(e.name))
			continue
		}
		if !ok {
			Fail("C14:name-is-resolved", e.where)
			continue
		}
		found++
		if len(v) != len(e.name) {
			Fail("C14:resolved-name", e.where)
			continue
		}
		Assert("C14:resolved-name|"+e.where, v == e.name)
	}
	if len(nsr.ResolvedNames) != found {
		Fail("C14:nothing-else-in-the-map", "")
	}
	if len(r.out) > 0 {
		Cover("resolved")
	}
	Cover("ran")
}
