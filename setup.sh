#!/bin/sh
# Builds the check driver (symgo engine + property drivers) from /verif/engine, offline.
set -e
cd "$(dirname "$0")/engine"
export GOFLAGS=-mod=mod GOPROXY=off GOSUMDB=off GOTOOLCHAIN=local GOWORK=off
mkdir -p ../bin ../work ../evidence ../replays
go build -o ../bin/check ./cmd/check
echo "built /verif/bin/check"
