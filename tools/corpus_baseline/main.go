//go:build ignore

package main

import (
	"bufio"
	"encoding/json"
	"os"
	"strings"

	"github.com/z7zmey/php-parser/pkg/conf"
	"github.com/z7zmey/php-parser/pkg/errors"
	"github.com/z7zmey/php-parser/pkg/parser"
	"github.com/z7zmey/php-parser/pkg/version"
)

type Snip struct {
	Src    string `json:"src"`
	Origin string `json:"origin"`
	OK5    bool   `json:"ok5"`
	OK72   bool   `json:"ok72"`
	OK74   bool   `json:"ok74"`
}

func ok(src string, ma, mi uint64) (res bool) {
	defer func() {
		if r := recover(); r != nil {
			res = false
		}
	}()
	n := 0
	root, err := parser.Parse([]byte(src), conf.Config{Version: &version.Version{Major: ma, Minor: mi}, ErrorHandlerFunc: func(e *errors.Error) { n++ }})
	return err == nil && root != nil && n == 0
}

func main() {
	var snips []Snip
	b, _ := os.ReadFile(os.Args[1])
	json.Unmarshal(b, &snips)
	seen := map[string]bool{}
	for _, s := range snips {
		seen[s.Src] = true
	}
	for _, f := range os.Args[2:] {
		fh, _ := os.Open(f)
		sc := bufio.NewScanner(fh)
		for sc.Scan() {
			l := strings.TrimRight(sc.Text(), " \t\r")
			if strings.TrimSpace(l) == "" || strings.HasPrefix(l, "<?") {
				continue
			}
			src := "<?php " + l
			if !seen[src] {
				seen[src] = true
				snips = append(snips, Snip{Src: src, Origin: strings.TrimPrefix(f, "/repo/")})
			}
		}
	}
	var out []Snip
	for _, s := range snips {
		s.OK5, s.OK72, s.OK74 = ok(s.Src, 5, 6), ok(s.Src, 7, 2), ok(s.Src, 7, 4)
		out = append(out, s)
	}
	enc := json.NewEncoder(os.Stdout)
	enc.SetIndent("", " ")
	enc.Encode(out)
}
