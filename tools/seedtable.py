#!/usr/bin/env python3
# seedtable.py: markdown table of the seeded changes (name, what it is, which quick checks detect it)
import json, glob, re, os
rows = []
for f in sorted(glob.glob('/verif/seeded/*/meta.json')):
    m = json.load(open(f))
    d = os.path.dirname(f)
    what = ''
    notes = os.path.join(d, 'notes.md')
    if os.path.exists(notes):
        for l in open(notes, errors='replace'):
            l = l.strip()
            if l.startswith('#'):
                what = re.sub(r'^#+\s*', '', l)
                what = re.sub(r'^(Mutation|Change)?\s*[ABXY]?\s*(\(C\d+\))?\s*[-—:]*\s*', '', what).strip()
                if len(what) > 8:
                    break
    det, miss, brk = [], [], []
    for k, v in sorted(m.get('detected_by', {}).items()):
        chk = k.split('/')[0]
        (det if v['result'] == 'detected' else miss if v['result'] == 'missed' else brk).append(chk)
    cell = ', '.join(det) if det else '-'
    if miss:
        cell += ' (not by ' + ', '.join(miss) + ')'
    if brk:
        cell += ' (no verdict: ' + ', '.join(brk) + ')'
    rows.append('| %s | %s | %s |' % (m['name'], what[:150].replace('|', '/'), cell))
print('| seed | the change | detected by (quick tier) |\n|---|---|---|')
print('\n'.join(rows))
