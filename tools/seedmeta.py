#!/usr/bin/env python3
# seedmeta.py <batch-log>...: records the outcome lines of tools/seedtest.sh in seeded/<name>/meta.json
import json, re, sys, os, subprocess
head = subprocess.check_output(['git', '-C', '/repo', 'rev-parse', '--short', 'HEAD']).decode().strip()
vhead = subprocess.check_output(['git', '-C', '/verif', 'rev-parse', '--short', 'HEAD']).decode().strip()
for log in sys.argv[1:]:
    for line in open(log, errors='replace'):
        m = re.match(r'(DETECTED|MISSED|BROKEN)\s+(\S+) by (\S+) \((\w+), (?:rc=\d+|(\d+)s)\)?:?\s*(.*)', line)
        if not m:
            continue
        res, seed, chk, tier, secs, rest = m.groups()
        f = '/verif/seeded/%s/meta.json' % seed
        if not os.path.exists(f):
            continue
        meta = json.load(open(f))
        d = meta.setdefault('detected_by', {})
        d['%s/%s' % (chk, tier)] = {'result': res.lower(), 'seconds': int(secs) if secs else None,
                                     'detail': rest.strip()[:300], 'repo_head': head, 'verif_head': vhead,
                                     'how': 'tools/seedtest.sh: patch applied to a scratch worktree of /repo, check pointed at it (VERIF_REPO), worktree removed afterwards'}
        notes = os.path.join('/verif/seeded', seed, 'notes.md')
        if meta.get('needs_to_manifest', 'see notes.md') == 'see notes.md' and os.path.exists(notes):
            txt = open(notes, errors='replace').read()
            t = re.search(r'(?:^|\n)[-* ]*\**(?:Trigger|It needs|What it needs|Needs)[^:\n]*:?\**:?\s*(.+?)(?:\n[-*#]|\n\n|$)', txt, re.S)
            if t:
                meta['needs_to_manifest'] = ' '.join(t.group(1).split())[:500]
        json.dump(meta, open(f, 'w'), indent=1)
print('ok')
