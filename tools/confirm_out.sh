#!/bin/bash
# confirm_out.sh <Cxx> : confirms /tmp/wt/out-Cxx/{X,Y} as seeds Cxx-C / Cxx-D
id=$1
for pair in X:C Y:D; do
  d=${pair%%:*}; n=${pair##*:}
  src=/tmp/wt/out-$id/$d
  [ -f $src/patch.diff ] || { echo "missing $src"; continue; }
  pkg=$(head -1 $src/notes.md | sed 's/^demo-package-dir: *//' | tr -d '` ')
  /verif/tools/confirm_seed.sh $src $id-$n $id "$pkg"
done
