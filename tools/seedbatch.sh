#!/bin/bash
# seedbatch.sh <parallel> <seed>...   runs each seed against the check of its own property
par=$1; shift
printf "%s\n" "$@" | xargs -P "$par" -I{} sh -c 'p=$(echo {} | cut -c1-3); VERIF_SNAP=${VERIF_SNAP:-/verif} /verif/tools/seedtest.sh {} $p'
