#!/usr/bin/env python3
# fill_design.py: regenerates the generated blocks of DESIGN.md (seed table, thorough-tier list)
import re, subprocess, glob, os
p = '/verif/DESIGN.md'
s = open(p).read()
table = subprocess.check_output(['python3', '/verif/tools/seedtable.py']).decode()
s = re.sub(r'<!-- SEEDTABLE:BEGIN -->.*?<!-- SEEDTABLE:END -->', lambda m: '<!-- SEEDTABLE:BEGIN -->\n' + table + '<!-- SEEDTABLE:END -->', s, flags=re.S)
src = open('/verif/engine/cmd/check/main.go').read()
m = re.search(r'var thoroughReady = map\[string\]bool\{(.*?)\n\}', src, re.S)
rows = []
for l in m.group(1).splitlines():
    mm = re.match(r'\s*"(C\d+)": true,\s*(?://\s*(.*))?', l)
    if mm:
        rows.append('* %s - %s' % (mm.group(1), mm.group(2) or 'ran clean'))
s = re.sub(r'<!-- THOROUGH:BEGIN -->.*?<!-- THOROUGH:END -->', lambda m: '<!-- THOROUGH:BEGIN -->\n' + '\n'.join(rows) + '\n<!-- THOROUGH:END -->', s, flags=re.S)
open(p, 'w').write(s)
print('filled', len(rows), 'thorough rows')
