#!/bin/bash
# runall.sh [tier] [ids...] : runs the registered checks on /repo as it is and prints one line each
tier=${1:-quick}; shift
ids=${@:-C01 C02 C03 C04 C05 C06 C07 C08 C09 C10 C11 C12 C13 C14 C15 C16 C17 C18}
cd /verif; mkdir -p work/runall
for id in $ids; do
  start=$(date +%s)
  ./bin/check $id --tier $tier > work/runall/$id.$tier.log 2>&1
  rc=$?
  end=$(date +%s)
  echo "$id $tier rc=$rc $((end-start))s viol=$(grep -ac '^VIOLATION' work/runall/$id.$tier.log) known=$(grep -ac '^KNOWN-FINDING' work/runall/$id.$tier.log) $(grep -a "^$id $tier:" work/runall/$id.$tier.log | cut -c1-160)"
done
