//go:build ignore

// extract_corpus: snapshot of the PHP snippets used by the repository's own tests.
// usage: go run extract_corpus.go /repo > corpus/snippets.json
package main

import (
	"encoding/json"
	"go/ast"
	"go/parser"
	"go/token"
	"os"
	"path/filepath"
	"sort"
	"strconv"
	"strings"
)

type Snip struct {
	Src    string `json:"src"`
	Origin string `json:"origin"`
}

func main() {
	root := os.Args[1]
	seen := map[string]bool{}
	var out []Snip
	filepath.Walk(root, func(p string, info os.FileInfo, err error) error {
		if err != nil || info.IsDir() || !strings.HasSuffix(p, "_test.go") {
			return nil
		}
		fset := token.NewFileSet()
		f, err := parser.ParseFile(fset, p, nil, 0)
		if err != nil {
			return nil
		}
		rel, _ := filepath.Rel(root, p)
		ast.Inspect(f, func(n ast.Node) bool {
			bl, ok := n.(*ast.BasicLit)
			if !ok || bl.Kind != token.STRING {
				return true
			}
			s, err := strconv.Unquote(bl.Value)
			if err != nil || !strings.Contains(s, "<?") || len(s) > 4000 {
				return true
			}
			if !seen[s] {
				seen[s] = true
				out = append(out, Snip{s, rel})
			}
			return true
		})
		return nil
	})
	sort.SliceStable(out, func(a, b int) bool { return out[a].Origin < out[b].Origin })
	enc := json.NewEncoder(os.Stdout)
	enc.SetIndent("", " ")
	enc.Encode(out)
}
