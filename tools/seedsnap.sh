#!/bin/bash
# seedsnap.sh: snapshot of what a check run needs, under /tmp/verif-snap
rm -rf /tmp/verif-snap; mkdir -p /tmp/verif-snap
cp -r /verif/bin /verif/harness /verif/corpus /verif/known_findings.json /tmp/verif-snap/
echo /tmp/verif-snap
