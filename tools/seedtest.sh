#!/bin/bash
# seedtest.sh [-t tier] <seed-name> <check-id>...
# Applies /verif/seeded/<seed-name>/patch.diff to /repo, runs the listed checks, reverts
# the patch straight afterwards, and prints one line per check: DETECTED / MISSED / BROKEN.
# Nothing is ever committed to /repo.
tier=quick
if [ "$1" = "-t" ]; then tier=$2; shift 2; fi
seed=$1; shift
cd /verif
if [ -n "$(git -C /repo status --porcelain)" ]; then echo "/repo is not clean"; exit 2; fi
git -C /repo apply "/verif/seeded/$seed/patch.diff" || { echo "patch does not apply"; exit 2; }
trap 'git -C /repo checkout -- . ; git -C /repo clean -fdq' EXIT
for id in "$@"; do
  log=/verif/work/seed-$seed-$id.log
  mkdir -p /verif/work
  cp /verif/evidence/$id.json /verif/work/ev-$id.bak 2>/dev/null
  start=$(date +%s)
  ./bin/check $id --tier $tier >$log 2>&1
  rc=$?
  end=$(date +%s)
  cp /verif/work/ev-$id.bak /verif/evidence/$id.json 2>/dev/null
  nv=$(grep -c "^VIOLATION" $log)
  first=$(grep -m1 -A1 "^VIOLATION" $log | grep signature | cut -c1-220)
  case $rc in
    1) echo "DETECTED $seed by $id ($tier, $((end-start))s): $nv violation signature(s);$first" ;;
    0) echo "MISSED   $seed by $id ($tier, $((end-start))s)" ;;
    *) echo "BROKEN   $seed by $id ($tier, rc=$rc): $(grep -m2 'ERROR\|ENGINE\|VACUOUS' $log | tr '\n' ' ' | cut -c1-300)" ;;
  esac
done
