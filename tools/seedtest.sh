#!/bin/bash
# seedtest.sh [-t tier] <seed-name> <check-id>...
# Applies /verif/seeded/<seed-name>/patch.diff to a scratch worktree of /repo (never to /repo
# itself), runs the listed checks against that worktree (VERIF_REPO) with evidence, replays and
# work files sent to a scratch directory (VERIF_OUT), removes both afterwards and prints one
# line per check: DETECTED / MISSED / BROKEN. Logs are kept under /verif/work/seedlogs/.
tier=quick
if [ "$1" = "-t" ]; then tier=$2; shift 2; fi
seed=$1; shift
# the checks run from a snapshot of /verif (binary, harness, corpus, known findings) taken by
# tools/seedsnap.sh, so that development in /verif does not disturb a running batch
snap=${VERIF_SNAP:-/verif}
cd $snap
wt=/tmp/seedwt/$seed-$$
out=/tmp/seedout/$seed-$$
mkdir -p /tmp/seedwt "$out" /verif/work/seedlogs
git -C /repo worktree add --detach "$wt" HEAD >/dev/null 2>&1 || { echo "cannot create worktree"; exit 2; }
cleanup() { git -C /repo worktree remove --force "$wt" >/dev/null 2>&1; rm -rf "$wt" "$out"; }
trap cleanup EXIT
git -C "$wt" apply "/verif/seeded/$seed/patch.diff" || { echo "patch does not apply"; exit 2; }
for id in "$@"; do
  log=/verif/work/seedlogs/$seed-$id-$tier.log
  start=$(date +%s)
  VERIF_DIR="$snap" VERIF_REPO="$wt" VERIF_OUT="$out" ./bin/check $id --tier $tier >$log 2>&1
  rc=$?
  end=$(date +%s)
  nv=$(grep -c "^VIOLATION" $log)
  first=$(grep -m1 -A1 "^VIOLATION" $log | grep signature | cut -c1-220)
  case $rc in
    1) echo "DETECTED $seed by $id ($tier, $((end-start))s): $nv violation signature(s);$first" ;;
    0) echo "MISSED   $seed by $id ($tier, $((end-start))s)" ;;
    *) echo "BROKEN   $seed by $id ($tier, rc=$rc): $(grep -m2 'ERROR\|ENGINE\|VACUOUS' $log | tr '\n' ' ' | cut -c1-300)" ;;
  esac
done
