#!/usr/bin/env python3
# Regenerates /verif/MANIFEST.json from the table below (single source of truth for the interface file).
import json, os
TECH = "bounded symbolic execution of go/ssa (rebuilt from /repo each run) with z3: path forking by re-execution, exact byte-domain decision procedure for one-variable constraints (incl. switch reconstruction over side-effect-free compare chains), every assertion discharged as PC && !A unsat, native replay of every solver model"
checks = {
 "C01": dict(design="4/C01",
   text="Bounded symbolic execution of the real parser.Parse pipeline (SSA rebuilt from /repo on every run): every byte string within the stated shapes and lengths is covered by a feasible path; no path may panic, exhaust the linear instruction budget, return an error, write to stdout, modify the buffer or static memory. Every path's solver model is replayed on the natively compiled code.",
   note="Bounds: raw inputs up to K bytes, '<?php '/'<?'/'<?=' + K bytes, 15 lexical-mode prefixes + K bytes (K per tier in the evidence); versions 7.4/5.6 (+7.2 thorough) as class representatives; nothing is claimed for longer inputs. Trusted: go/ssa front end, symgo semantics (validated per path by native replay), std models, z3."),
 "C09": dict(design="4/C09",
   text="Validate, Parse's version dispatch and Compare/Less/.../InRange are decided for all 64-bit (major, minor) values by z3 over the interpreted SSA (no bound on values); version.New for every byte string up to N bytes; 'nil means 7.4' and 'same class => same trees and errors' by bounded symbolic execution of the whole pipeline with a fully symbolic second version (the engine forks wherever the code compares the version).",
   note="Relational part bounded to short inputs ('<?php '/'<?' + K bytes, heredoc and other version-sensitive prefixes + K bytes; K in the evidence). Class equivalence is shown against one representative per class (5.6, 7.2, 7.4), pairwise equivalence follows by transitivity."),
 "C18": dict(design="4/C18",
   text="One inductive step of the real (*Pool).Get (token and position pools) from an arbitrary state satisfying the invariant, with block length, offset and the index of an earlier pointer as unconstrained 64-bit symbols (abstract arrays); obligations: bounds check cannot fail, result non-nil, result distinct from every earlier pointer, invariant re-established; base case NewPool(n) for every n>=1; library call sites pass positive sizes; concrete twin with writes through every pointer.",
   note="No bound on block size or number of requests (inductive); 64-bit wrap-around arithmetic. Witnesses with block sizes above 2048 cannot be allocated natively, so the unbounded runs are not replayed; the same harness restricted to sizes <= 2048 is replayed on every path. 'Writing through one never changes another' follows from pointer distinctness and Go's memory model (stated assumption)."),
 "C02": dict(design="4/C02",
   text="Bounded symbolic execution of parser.Parse followed by the printer on every input of the stated shapes; on every error-free path the printed chunks must equal the source byte for byte (chunks that alias the source at their own offset are identical terms, every other chunk - anything the printer invents or moves - is compared with the source bytes by an SMT query).",
   note="Bounds: the shapes and lengths listed in the evidence (short raw inputs, open tags and lexical-mode prefixes + K symbolic bytes; corpus snippets with symbolic windows/trivia/lexeme holes where listed). Nothing is claimed for other inputs."),
 "C04": dict(design="4/C04",
   text="Bounded symbolic execution of parser.Parse; on every path with a tree, every token and free-floating token must alias the source at its recorded offsets, carry the lines of an independent non-forking line-count definition (SMT equality under the path condition: LF, CRLF, lone CR), be ordered and disjoint; on error-free paths tokens tile the source, free-floating tokens are contiguous with their owner and classified (whitespace/comment/doc-comment/open tag) and leaf values equal their token text.",
   note="Bounds: as listed in the evidence. The end-of-input sentinel (Root.EndTkn, id 0, empty text) has no offsets and is exempt from the offset checks."),
 "C06": dict(design="4/C06",
   text="Bounded symbolic execution of parser.Parse with and without callback on the same path: sufficient malformedness conditions on the real lexer's token stream (unbalanced brackets, unterminated string/backquote/heredoc, last token cannot end a program) imply >= 1 reported error; zero errors imply a non-nil tree that tiles and re-prints the source; every error has a message, an in-range position with the reference line numbers (SMT), syntax errors select a token of the stream, errors arrive in source order; the nil-callback tree equals the callback tree (tokens, free-floating tokens, positions).",
   note="Completeness of the malformedness oracle (every invalid program) is not claimed: the conditions are sufficient, not necessary. Bounds as listed in the evidence."),
 "C12": dict(design="4/C12",
   text="Per node kind (kinds and slots read from pkg/ast/node.go on every run): symbolic execution of Traverser.Traverse on a synthetic node whose child slots are symbolically present/absent with lists of length 0..2, recording visitor; asserted: parent first, every present child exactly once, nothing else, slot order. On parsed trees (bounded symbolic inputs): visit sequence == pre-order of the tree, no node object reachable twice, declaration order == source order of siblings (which licenses the per-kind order oracle).",
   note="The per-kind space is a finite set of presence/length choices: the solver's role there is enumeration of feasible choice vectors (full product up to 6 child slots; beyond that all-present/all-absent/one-absent/one-present). Parsed-tree part bounded to the short shapes in the evidence."),
 "C15": dict(design="4/C15",
   text="Per node kind: symbolic execution of the printer on a synthetic node whose token and child slots are symbolically present/absent (marker tokens with one free-floating marker each, marker children, lists 0..2 with separators none/len-1/len); asserted: every present token contributes free-floating text then value exactly once, every present child exactly once, separators interleaved, slot order, nothing foreign, and at most one constant chunk per absent token (plus glue spaces).",
   note="Finite presence/length space enumerated through the solver (full product up to 6 slots, otherwise one-hot families). Which constant the printer substitutes for an absent token is not checked here (a wrong default lexeme is only caught where C17/C02-style re-parsing covers it). Locality on parsed trees follows from exact-once-in-order per kind; not separately explored yet."),
 "C16": dict(design="4/C16",
   text="Per node kind x the four WithTokens/WithPositions combinations: symbolic execution of the dumper on a synthetic node with every child/token/value/position slot symbolically present or absent; the dump text is read back by a reader for the dumper's layout and compared with the node through the generated slot accessors: literal type, every non-empty slot exactly once under its field name (Val for byte values, Position for positions), tokens/positions only when requested, equal content recursively, nothing else.",
   note="Finite presence space enumerated through the solver. Marker values are concrete ASCII; quoting of arbitrary bytes is covered on parsed trees only where listed in the evidence. Syntactic validity is decided by the harness's reader (natively the same reader), not by go/parser."),
 "C13": dict(design="4/C13",
   text="For every parsed tree of the bounded symbolic inputs: a deep snapshot (object identities and every stored value of every node, token, free-floating token and position), the source buffer and the engine's static-memory write monitor are compared before/after each of print, traverse (Null and recording visitor), resolve, dump (with and without tokens/positions) - one inductive step from an arbitrary parsed tree, which covers operation sequences of any length; a second round in the opposite order must reproduce the first round's outputs.",
   note="Bounds: inputs as listed in the evidence; resolve only on error-free trees. Paths on which strconv.Quote meets a symbolic non-ASCII byte are inconclusive for the dump step (counted in the evidence). The static-memory verdict comes from the engine's write monitor and has no native counterpart."),
 "C11": dict(design="4/C11",
   text="Not a schedule exploration. Decided symbolically for all inputs of the bound: (1) footprint - no library code writes to memory that exists before the pipeline starts (package-level variables and everything reachable from them, observed by the engine's static-memory write monitor) during parse (both grammars), print, dump, traverse, resolve; two parses of the same input share no objects; (2) determinism - parsing the same symbolic input twice yields term-identical trees and errors, print/dump of both agree; (3) the SSA of every executed library function is scanned for go/select/channel operations, map iteration and calls into time, rand, os, sync, runtime, unsafe, reflect. Disjoint footprints + the Go memory model give race freedom and schedule independence.",
   note="The step from footprint disjointness to 'all interleavings' is an argument, not a solver query; cmd/php-parser's worker/channel protocol is outside the claim. Bounds on inputs as in the evidence."),
 "C05": dict(design="4/C05",
   text="Bounded symbolic execution of parser.Parse over program shapes (the committed corpus of the repository's own test snippets, both grammars) with symbolic trivia in the inter-token gaps; on every error-free path every node's StartPos/EndPos must equal the min start / max end of the significant tokens of its subtree (through the generated slot accessors), lines those of these tokens, children inside parents, siblings ordered and disjoint, with the documented conventions (root without EndTkn, trait adaptations without their ';', token-less nodes unconstrained, -1 only where the last/first child slot is an empty list or itself -1).",
   note="Program shapes are the corpus, not all programs; trivia per gap as listed in the evidence (one gap at a time). Three test-pinned deviations are known findings (ScalarEncapsedStringVar end, PHP 5 goto label)."),
 "C08": dict(design="4/C08",
   text="For every corpus snippet accepted by the baseline parse and every admissible inter-token gap (PHP mode, outside strings/heredocs/inline HTML): the gap is replaced by a symbolic trivia string (white space of every newline style, block, doc, # and // comments with symbolic content) and parsed on the same path as the unmodified snippet; asserted: no error is reported and the trees are equal in kinds, nesting, values and significant tokens (free-floating tokens and positions excluded), byte values compared by SMT.",
   note="One gap at a time, trivia of at most 3 symbolic bytes plus delimiters; gaps directly after a heredoc label (and after its ';') and the byte after '<?php' are excluded because PHP itself gives them meaning. Lone CR and comments inside the __halt_compiler(); head are known findings (need ragel)."),
 "C10": dict(design="4/C10",
   text="Differential: the same symbolic input is parsed under 5.6 and 7.2 on one path; when both report no error and the token stream contains none of the constructs regrouped by PHP 7's uniform variable syntax (variable-variables, static/dynamic member chains, new with a member chain, yield, empty list()), the two trees must be equal including tokens, free-floating tokens and positions (SMT for symbolic bytes). Inputs: every corpus snippet as written and with symbolic trivia in its gaps, plus the short shapes.",
   note="5.6 vs 7.2 so that the 7.3 heredoc change is not mistaken for a grammar difference. The exclusion list is written down in harness/h_corpus.go (notSharedSyntax) and every path dropped by it is counted under reachability_covers. The PHP 5 goto-label position is a known finding."),
 "C17": dict(design="4/C17",
   text="For every corpus snippet accepted by the parser (both grammars), as written and with symbolic trivia in its inter-token gaps: parse, format, print, parse again on one path; asserted: no panic, the formatted text parses without errors, the second tree equals the first in kinds, nesting and values (SMT for symbolic bytes), formatting and printing the second tree reproduces the same bytes (idempotence), and the formatted text equals the formatted text of the unmodified snippet (canonicity: independent of the symbolic trivia).",
   note="Program shapes are the corpus; one gap at a time. Ten signatures are known findings (inline HTML, heredoc flavour/placement, ${ } forms, braced empty namespaces); seven small formatter defects were repaired with fix: commits."),
 "C14": dict(design="4/C14",
   text="Differential against a reference resolver written from the PHP manual's name-resolution and importing rules (harness/h_c14.go), both run on the same parsed tree inside one symbolic path: programs are generated from namespace form x import declarations (use / use function / use const, group, mixed group, leading backslash, keyword case) x 43 reference positions x 7 name forms + declaration forms; the alias of every import and the first segment of the referenced name are symbolic identifiers, so alias hit / hit up to case / miss is decided by the solver. Asserted by SMT equality on the symbolic bytes: every declaration and every compile-time-resolved reference has an entry with the reference's fully qualified name, special names stay unqualified, and the map contains nothing else.",
   note="Bounds: one referenced or declared name per program, <= 2 imports, <= 3 name segments, symbolic identifiers [Zz][A-Za-z] (2 bytes); quick tier rotates (import, namespace form) over the positions, thorough tier takes the full product. The reference fixes PHP's compile-time rules; run-time fall-back of functions/constants to the global namespace is not resolution. Programs that PHP rejects (duplicate alias) are discarded."),
}
na = {}
ALL = ["C%02d" % i for i in range(1, 19)]
extra = os.path.join(os.path.dirname(__file__), "manifest_extra.json")
if os.path.exists(extra):
    e = json.load(open(extra))
    checks.update(e.get("checks", {}))
    na.update(e.get("not_applicable", {}))
m = {
 "version": 1,
 "setup_cmd": "./setup.sh",
 "hooks": {"guard": "verif", "enable": "no source hooks: harness files (incl. package-internal accessors under /verif/harness/pkg) are injected with go build -overlay and packages.Config.Overlay (see DESIGN.md 2.1)",
           "baseline_off_cmd": "cd /repo && go test -vet=off -count=1 ./...", "source_commits": [], "add_only": True},
 "engines": [{"name": "symgo", "path": "/verif/engine", "serves_properties": sorted(checks), "kind_free_text": "symbolic interpreter for go/ssa (fork of x/tools ssa/interp) + z3 over SMT-LIB2"}],
 "checks": [], "not_applicable": [],
 "notes": "All checks rebuild the SSA and the native replayer from /repo's working tree on every run.",
}
for pid in ALL:
    if pid in checks:
        c = checks[pid]
        m["checks"].append({
          "property_id": pid, "quick_cmd": "./bin/check %s --tier quick" % pid, "thorough_cmd": "./bin/check %s --tier thorough" % pid,
          "evidence_file": "/verif/evidence/%s.json" % pid, "replay_cmd_template": "./bin/check %s --replay {path}" % pid, "engine": "symgo",
          "level_claimed": {"category": c.get("category", "model_checking"), "text": c["text"], "design_ref": c["design"]},
          "level_note": c["note"], "technique": c.get("technique", TECH)})
    else:
        m["not_applicable"].append({"property_id": pid, "reason": na.get(pid, "check not built yet (work in progress; see DESIGN.md section 8 build order)")})
json.dump(m, open(os.path.join(os.path.dirname(__file__), "..", "MANIFEST.json"), "w"), indent=1)
print("checks:", sorted(checks), "n/a:", [x["property_id"] for x in m["not_applicable"]])
