#!/bin/bash
# confirm_seed.sh <src-dir> <seed-name> <property> <demo-package-dir>
# Confirms a seeded change in a scratch worktree of /repo (removed afterwards):
#   with the patch: go build + the complete existing test suite pass, the demonstration fails;
#   without it: the demonstration passes.
# On success the change is stored as /verif/seeded/<seed-name>/ with meta.json.
set -u
src=$1; name=$2; prop=$3; pkgdir=$4
export GOFLAGS=-mod=mod GOPROXY=off GOSUMDB=off GOTOOLCHAIN=local
wt=/tmp/seedconfirm-$name-$$
git -C /repo worktree add --detach "$wt" HEAD >/dev/null 2>&1 || { echo "cannot create worktree"; exit 2; }
cleanup() { git -C /repo worktree remove --force "$wt" >/dev/null 2>&1; rm -rf "$wt"; }
trap cleanup EXIT
cd "$wt"
demo=zz_seed_demo_test.go
cp "$src/demo_test.go" "$pkgdir/$demo"
# 1. demo passes on the unchanged tree
if ! go test -vet=off -count=1 -timeout 120s "./$pkgdir/" >/tmp/seed-$$-clean.log 2>&1; then
  echo "REJECT $name: demonstration fails on the unchanged tree"; tail -5 /tmp/seed-$$-clean.log; rm -f /tmp/seed-$$-*.log; exit 1
fi
rm "$pkgdir/$demo"
# 2. patch applies, builds, suite passes
if ! git apply "$src/patch.diff"; then echo "REJECT $name: patch does not apply"; exit 1; fi
if ! go build ./... >/tmp/seed-$$-build.log 2>&1; then echo "REJECT $name: does not build"; tail -5 /tmp/seed-$$-build.log; rm -f /tmp/seed-$$-*.log; exit 1; fi
if ! go test -vet=off -count=1 -timeout 600s ./... >/tmp/seed-$$-suite.log 2>&1; then
  echo "REJECT $name: existing test suite fails with the change"; grep -v "^ok\|no test files" /tmp/seed-$$-suite.log | tail -8; rm -f /tmp/seed-$$-*.log; exit 1
fi
# 3. demo fails with the patch
cp "$src/demo_test.go" "$pkgdir/$demo"
if timeout 180 go test -vet=off -count=1 -timeout 120s "./$pkgdir/" >/tmp/seed-$$-mut.log 2>&1; then
  echo "REJECT $name: demonstration passes with the change"; rm -f /tmp/seed-$$-*.log; exit 1
fi
fail=$(grep -m3 -- "--- FAIL\|panic:\|timed out" /tmp/seed-$$-mut.log | tr '\n' ' ' | cut -c1-200)
dst=/verif/seeded/$name
mkdir -p "$dst"
cp "$src/patch.diff" "$dst/patch.diff"
cp "$src/demo_test.go" "$dst/demo_test.go"
[ -f "$src/notes.md" ] && cp "$src/notes.md" "$dst/notes.md"
python3 - "$dst" "$name" "$prop" "$pkgdir" "$fail" <<'E'
import json,sys,subprocess
dst,name,prop,pkgdir,fail=sys.argv[1:6]
head=subprocess.check_output(['git','-C','/repo','rev-parse','--short','HEAD']).decode().strip()
notes=open(dst+'/notes.md').read() if __import__('os').path.exists(dst+'/notes.md') else ''
meta={"name":name,"breaks_property":prop,"origin":"independent sub-agent given only the property text and a scratch worktree",
 "demonstration":{"file":"demo_test.go","place_in":pkgdir,"run":"go test -vet=off -count=1 ./"+pkgdir+"/"},
 "confirmed":{"repo_head":head,"how":"tools/confirm_seed.sh in a scratch worktree: demo passes on the unchanged tree; with the patch go build ./... and go test -vet=off -count=1 ./... pass and the demo fails","demo_failure_with_change":fail},
 "needs_to_manifest":"see notes.md","detected_by":{}}
json.dump(meta,open(dst+'/meta.json','w'),indent=1)
E
rm -f /tmp/seed-$$-*.log
echo "CONFIRMED $name ($prop): $fail"
