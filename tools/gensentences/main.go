//go:build ignore

// gensentences: grammar-coverage corpus. Reads the rules of internal/php{5,7}/php{5,7}.y
// (actions are skipped), and writes one minimal complete program
//   - per production,
//   - per production and subset of its nullable right-hand-side symbols (each chosen
//     symbol expanded by its shortest non-empty derivation, the others left empty),
//   - per production, right-hand-side position and alternative production of the
//     nonterminal at that position ("pairs"), with no, all and every proper subset of
//     the nullable siblings,
//   - every accepted production/optional sentence twice in a row ("double"),
// rendered to bytes with a lexeme table and checked against the real parser of the
// tree it is run on (baseline acceptance per version class, like corpus/snippets.json).
//
// usage: cd /repo && go run /verif/tools/gensentences/main.go > /verif/corpus/sentences.json
package main

import (
	"encoding/json"
	"fmt"
	"os"
	"sort"
	"strings"

	"github.com/z7zmey/php-parser/pkg/conf"
	"github.com/z7zmey/php-parser/pkg/errors"
	"github.com/z7zmey/php-parser/pkg/parser"
	"github.com/z7zmey/php-parser/pkg/version"
)

type Snip struct {
	Src    string `json:"src"`
	Origin string `json:"origin"`
	Class  string `json:"class"` // production | optional | pair
	OK5    bool   `json:"ok5"`
	OK72   bool   `json:"ok72"`
	OK74   bool   `json:"ok74"`
}

type prod struct {
	lhs    string
	rhs    []string
	idx    int    // index among the productions of lhs
	action string // text of the semantic action(s); only used to see whether it branches
}

// branchy: the semantic action looks at what its children are (type switch, condition, loop).
func (p *prod) branchy() bool {
	return strings.Contains(p.action, "switch ") || strings.Contains(p.action, "if ") || strings.Contains(p.action, "for ")
}

type grammar struct {
	name  string
	start string
	prods []*prod
	by    map[string][]*prod
	min   map[string][]string // shortest terminal string
	minNE map[string][]string // shortest non-empty terminal string (nil: none)
	ctx   map[string]*ctxT
}

type ctxT struct {
	cost        int
	p           *prod
	pos         int
	left, right []string
}

// ---- reading the .y file ----------------------------------------------------------

func readGrammar(path, name string) *grammar {
	b, err := os.ReadFile(path)
	if err != nil {
		panic(err)
	}
	s := string(b)
	i := strings.Index(s, "\n%%")
	j := strings.LastIndex(s, "\n%%")
	rules := s[i+3 : j]
	var toks []string
	for k := 0; k < len(rules); {
		c := rules[k]
		switch {
		case c == ' ' || c == '\t' || c == '\n' || c == '\r':
			k++
		case c == '/' && k+1 < len(rules) && rules[k+1] == '/':
			for k < len(rules) && rules[k] != '\n' {
				k++
			}
		case c == '/' && k+1 < len(rules) && rules[k+1] == '*':
			k += 2
			for k+1 < len(rules) && !(rules[k] == '*' && rules[k+1] == '/') {
				k++
			}
			k += 2
		case c == '{':
			e := skipAction(rules, k)
			toks = append(toks, "\x00"+rules[k:e])
			k = e
		case c == '\'':
			e := k + 1
			for rules[e] != '\'' {
				if rules[e] == '\\' {
					e++
				}
				e++
			}
			toks = append(toks, rules[k:e+1])
			k = e + 1
		case c == ':' || c == '|' || c == ';':
			toks = append(toks, string(c))
			k++
		case c == '%':
			e := k + 1
			for e < len(rules) && isIdent(rules[e]) {
				e++
			}
			toks = append(toks, rules[k:e])
			k = e
		case isIdent(c):
			e := k
			for e < len(rules) && isIdent(rules[e]) {
				e++
			}
			toks = append(toks, rules[k:e])
			k = e
		default:
			panic(fmt.Sprintf("%s: unexpected %q at %d", path, c, k))
		}
	}
	g := &grammar{name: name, by: map[string][]*prod{}}
	for k := 0; k < len(toks); {
		lhs := toks[k]
		if toks[k+1] != ":" {
			panic("expected ':' after " + lhs)
		}
		k += 2
		if g.start == "" {
			g.start = lhs
		}
		cur := []string{}
		act := ""
		flush := func() {
			p := &prod{lhs: lhs, rhs: cur, idx: len(g.by[lhs]), action: act}
			g.prods = append(g.prods, p)
			g.by[lhs] = append(g.by[lhs], p)
			cur = []string{}
			act = ""
		}
		for {
			if k >= len(toks) || (k+1 < len(toks) && toks[k+1] == ":") {
				// yacc allows a rule to end without ';'
				flush()
				break
			}
			t := toks[k]
			k++
			if t == "|" {
				flush()
				continue
			}
			if t == ";" {
				flush()
				break
			}
			if t == "%prec" {
				k++
				continue
			}
			if strings.HasPrefix(t, "\x00") {
				act += t[1:]
				continue
			}
			cur = append(cur, t)
		}
	}
	return g
}

func isIdent(c byte) bool {
	return c == '_' || (c >= 'a' && c <= 'z') || (c >= 'A' && c <= 'Z') || (c >= '0' && c <= '9')
}

// skipAction skips a { ... } Go action (strings, runes, comments respected).
func skipAction(s string, k int) int {
	depth := 0
	for k < len(s) {
		c := s[k]
		switch {
		case c == '{':
			depth++
			k++
		case c == '}':
			depth--
			k++
			if depth == 0 {
				return k
			}
		case c == '"':
			k++
			for s[k] != '"' {
				if s[k] == '\\' {
					k++
				}
				k++
			}
			k++
		case c == '`':
			k++
			for s[k] != '`' {
				k++
			}
			k++
		case c == '\'':
			k++
			for s[k] != '\'' {
				if s[k] == '\\' {
					k++
				}
				k++
			}
			k++
		case c == '/' && s[k+1] == '/':
			for s[k] != '\n' {
				k++
			}
		case c == '/' && s[k+1] == '*':
			k += 2
			for !(s[k] == '*' && s[k+1] == '/') {
				k++
			}
			k += 2
		default:
			k++
		}
	}
	panic("unterminated action")
}

func (g *grammar) isNT(s string) bool { _, ok := g.by[s]; return ok }

func usable(p *prod) bool {
	for _, s := range p.rhs {
		if s == "error" {
			return false
		}
	}
	return true
}

// ---- shortest derivations -----------------------------------------------------------

// weight of a terminal: unusual tokens are expensive so that the minimal statement is
// ';' and the minimal expression a variable, not inline HTML or a bare yield.
func weight(t string) int {
	switch t {
	case "T_INLINE_HTML", "T_HALT_COMPILER":
		return 8
	case "T_YIELD", "T_YIELD_FROM", "T_EXIT", "T_PRINT", "T_STATIC", "T_START_HEREDOC", "'`'", "'\"'":
		return 4
	case "T_STRING", "T_LNUMBER", "T_DNUMBER", "T_CONSTANT_ENCAPSED_STRING":
		return 2
	}
	return 1
}

func cost(ts []string) int {
	n := 0
	for _, t := range ts {
		n += weight(t)
	}
	return n
}

func (g *grammar) analyse() {
	g.min = map[string][]string{}
	have := map[string]bool{}
	for changed := true; changed; {
		changed = false
		for _, p := range g.prods {
			if !usable(p) {
				continue
			}
			var out []string
			ok := true
			for _, s := range p.rhs {
				if g.isNT(s) {
					if !have[s] {
						ok = false
						break
					}
					out = append(out, g.min[s]...)
				} else {
					out = append(out, s)
				}
			}
			if ok && (!have[p.lhs] || cost(out) < cost(g.min[p.lhs])) {
				g.min[p.lhs] = out
				have[p.lhs] = true
				changed = true
			}
		}
	}
	// shortest non-empty
	g.minNE = map[string][]string{}
	for changed := true; changed; {
		changed = false
		for _, p := range g.prods {
			if !usable(p) {
				continue
			}
			// cheapest non-empty string of this production: all minimal, and if that
			// is empty, one symbol replaced by its non-empty minimum
			var out []string
			ok := true
			for _, s := range p.rhs {
				if g.isNT(s) {
					if !have[s] {
						ok = false
						break
					}
					out = append(out, g.min[s]...)
				} else {
					out = append(out, s)
				}
			}
			if !ok {
				continue
			}
			cands := [][]string{}
			if len(out) > 0 {
				cands = append(cands, out)
			} else {
				for _, s := range p.rhs {
					if ne, ok := g.minNE[s]; ok {
						cands = append(cands, ne)
					}
				}
			}
			for _, c := range cands {
				if old, ok := g.minNE[p.lhs]; !ok || cost(c) < cost(old) {
					g.minNE[p.lhs] = c
					changed = true
				}
			}
		}
	}
	// cheapest context of every nonterminal
	g.ctx = map[string]*ctxT{g.start: {cost: 0}}
	for changed := true; changed; {
		changed = false
		for _, p := range g.prods {
			if !usable(p) {
				continue
			}
			pc, ok := g.ctx[p.lhs]
			if !ok {
				continue
			}
			for i, s := range p.rhs {
				if !g.isNT(s) {
					continue
				}
				var l, r []string
				good := true
				for k, o := range p.rhs {
					if k == i {
						continue
					}
					var e []string
					if g.isNT(o) {
						if !have[o] {
							good = false
							break
						}
						e = g.min[o]
					} else {
						e = []string{o}
					}
					if k < i {
						l = append(l, e...)
					} else {
						r = append(r, e...)
					}
				}
				if !good {
					continue
				}
				cst := pc.cost + cost(l) + cost(r)
				if old, ok := g.ctx[s]; !ok || cst < old.cost {
					g.ctx[s] = &ctxT{cost: cst, p: p, pos: i, left: l, right: r}
					changed = true
				}
			}
		}
	}
}

// wrap puts the terminal string mid (derived from nonterminal nt) into nt's cheapest
// context, up to the start symbol.
func (g *grammar) wrap(nt string, mid []string) ([]string, bool) {
	for steps := 0; nt != g.start; steps++ {
		c, ok := g.ctx[nt]
		if !ok || steps > 200 {
			return nil, false
		}
		out := append(append(append([]string{}, c.left...), mid...), c.right...)
		mid = out
		nt = c.p.lhs
	}
	return mid, true
}

// expand a production with explicit choices: sub[i] (if non-nil) replaces the minimal
// expansion of rhs[i].
func (g *grammar) expand(p *prod, sub map[int][]string) ([]string, bool) {
	var out []string
	for i, s := range p.rhs {
		if e, ok := sub[i]; ok {
			out = append(out, e...)
			continue
		}
		if g.isNT(s) {
			m, ok := g.min[s]
			if !ok {
				return nil, false
			}
			out = append(out, m...)
		} else {
			out = append(out, s)
		}
	}
	return out, true
}

// ---- rendering ------------------------------------------------------------------------

var lexeme = map[string]string{
	"T_ABSTRACT": "abstract", "T_AND_EQUAL": "&=", "T_ARRAY": "array", "T_ARRAY_CAST": "(array)", "T_AS": "as",
	"T_BOOLEAN_AND": "&&", "T_BOOLEAN_OR": "||", "T_BOOL_CAST": "(bool)", "T_BREAK": "break", "T_CALLABLE": "callable",
	"T_CASE": "case", "T_CATCH": "catch", "T_CLASS": "class", "T_CLASS_C": "__CLASS__", "T_CLONE": "clone",
	"T_COALESCE": "??", "T_COALESCE_EQUAL": "??=", "T_CONCAT_EQUAL": ".=", "T_CONST": "const",
	"T_CONSTANT_ENCAPSED_STRING": "'s'", "T_CONTINUE": "continue", "T_CURLY_OPEN": "{", "T_DEC": "--", "T_DECLARE": "declare",
	"T_DEFAULT": "default", "T_DIR": "__DIR__", "T_DIV_EQUAL": "/=", "T_DNUMBER": "1.5", "T_DO": "do",
	"T_DOLLAR_OPEN_CURLY_BRACES": "${", "T_DOUBLE_ARROW": "=>", "T_DOUBLE_CAST": "(float)", "T_ECHO": "echo", "T_ELLIPSIS": "...",
	"T_ELSE": "else", "T_ELSEIF": "elseif", "T_EMPTY": "empty", "T_ENCAPSED_AND_WHITESPACE": "x ", "T_ENDDECLARE": "enddeclare",
	"T_ENDFOR": "endfor", "T_ENDFOREACH": "endforeach", "T_ENDIF": "endif", "T_ENDSWITCH": "endswitch", "T_ENDWHILE": "endwhile",
	"T_END_HEREDOC": "\nA\n", "T_EVAL": "eval", "T_EXIT": "exit", "T_EXTENDS": "extends", "T_FILE": "__FILE__", "T_FINAL": "final",
	"T_FINALLY": "finally", "T_FN": "fn", "T_FOR": "for", "T_FOREACH": "foreach", "T_FUNCTION": "function", "T_FUNC_C": "__FUNCTION__",
	"T_GLOBAL": "global", "T_GOTO": "goto", "T_HALT_COMPILER": "__halt_compiler", "T_IF": "if", "T_IMPLEMENTS": "implements",
	"T_INC": "++", "T_INCLUDE": "include", "T_INCLUDE_ONCE": "include_once", "T_INLINE_HTML": "?>h<?php ", "T_INSTANCEOF": "instanceof",
	"T_INSTEADOF": "insteadof", "T_INTERFACE": "interface", "T_INT_CAST": "(int)", "T_ISSET": "isset", "T_IS_EQUAL": "==",
	"T_IS_GREATER_OR_EQUAL": ">=", "T_IS_IDENTICAL": "===", "T_IS_NOT_EQUAL": "!=", "T_IS_NOT_IDENTICAL": "!==",
	"T_IS_SMALLER_OR_EQUAL": "<=", "T_LINE": "__LINE__", "T_LIST": "list", "T_LNUMBER": "1", "T_LOGICAL_AND": "and",
	"T_LOGICAL_OR": "or", "T_LOGICAL_XOR": "xor", "T_METHOD_C": "__METHOD__", "T_MINUS_EQUAL": "-=", "T_MOD_EQUAL": "%=",
	"T_MUL_EQUAL": "*=", "T_NAMESPACE": "namespace", "T_NEW": "new", "T_NS_C": "__NAMESPACE__", "T_NS_SEPARATOR": "\\",
	"T_NUM_STRING": "0", "T_OBJECT_CAST": "(object)", "T_OBJECT_OPERATOR": "->", "T_OR_EQUAL": "|=", "T_PAAMAYIM_NEKUDOTAYIM": "::",
	"T_PLUS_EQUAL": "+=", "T_POW": "**", "T_POW_EQUAL": "**=", "T_PRINT": "print", "T_PRIVATE": "private", "T_PROTECTED": "protected",
	"T_PUBLIC": "public", "T_REQUIRE": "require", "T_REQUIRE_ONCE": "require_once", "T_RETURN": "return", "T_SL": "<<", "T_SL_EQUAL": "<<=",
	"T_SPACESHIP": "<=>", "T_SR": ">>", "T_SR_EQUAL": ">>=", "T_START_HEREDOC": "<<<A\n", "T_STATIC": "static", "T_STRING": "a",
	"T_STRING_CAST": "(string)", "T_STRING_VARNAME": "a", "T_SWITCH": "switch", "T_THROW": "throw", "T_TRAIT": "trait", "T_TRAIT_C": "__TRAIT__",
	"T_TRY": "try", "T_UNSET": "unset", "T_UNSET_CAST": "(unset)", "T_USE": "use", "T_VAR": "var", "T_VARIABLE": "$a", "T_WHILE": "while",
	"T_XOR_EQUAL": "^=", "T_YIELD": "yield", "T_YIELD_FROM": "yield from",
}

// render turns a terminal string into source text. Outside string contexts tokens are
// separated by one space; inside "..", `..` and heredoc bodies they are adjacent.
func render(ts []string) (string, bool) {
	var sb strings.Builder
	sb.WriteString("<?php ")
	inStr := 0 // 0 none, '"', '`', 'h'
	depth := 0 // nesting of { } / [ ] inside an interpolation
	for i, t := range ts {
		var lx string
		if len(t) >= 3 && t[0] == '\'' {
			lx = t[1 : len(t)-1]
			if lx == "\\'" {
				lx = "'"
			}
		} else {
			l, ok := lexeme[t]
			if !ok {
				if os.Getenv("GENSENT_DEBUG") != "" {
					fmt.Fprintf(os.Stderr, "NOLEXEME %s\n", t)
				}
				return "", false
			}
			lx = l
		}
		switch {
		case inStr == 0:
			if i > 0 {
				sb.WriteByte(' ')
			}
			sb.WriteString(lx)
			switch t {
			case "'\"'":
				inStr = '"'
			case "'`'":
				inStr = '`'
			case "T_START_HEREDOC":
				inStr = 'h'
			}
		default:
			if depth > 0 {
				// inside {$ ... } / ${ ... }: ordinary PHP mode
				switch t {
				case "'{'", "T_CURLY_OPEN", "T_DOLLAR_OPEN_CURLY_BRACES":
					depth++
				case "'}'":
					depth--
				}
				sb.WriteString(lx)
				if depth > 0 && t != "T_DOLLAR_OPEN_CURLY_BRACES" && t != "T_CURLY_OPEN" {
					sb.WriteByte(' ')
				}
				continue
			}
			switch t {
			case "T_CURLY_OPEN", "T_DOLLAR_OPEN_CURLY_BRACES":
				depth = 1
				sb.WriteString(lx)
				continue
			case "'\"'":
				if inStr == '"' {
					inStr = 0
				}
			case "'`'":
				if inStr == '`' {
					inStr = 0
				}
			case "T_END_HEREDOC":
				if inStr == 'h' {
					inStr = 0
				}
			}
			sb.WriteString(lx)
		}
	}
	return sb.String(), true
}

// ---- baseline -----------------------------------------------------------------------

func accepted(src string, ma, mi uint64) (res bool) {
	defer func() {
		if r := recover(); r != nil {
			res = false
		}
	}()
	n := 0
	root, err := parser.Parse([]byte(src), conf.Config{Version: &version.Version{Major: ma, Minor: mi}, ErrorHandlerFunc: func(e *errors.Error) { n++ }})
	return err == nil && root != nil && n == 0
}

func main() {
	var out []Snip
	seen := map[string]bool{}
	stats := map[string]int{}
	emit := func(g *grammar, class, origin string, nt string, mid []string) {
		full, ok := g.wrap(nt, mid)
		if !ok {
			stats[g.name+" unreachable"]++
			return
		}
		src, ok := render(full)
		if !ok {
			stats[g.name+" unrenderable"]++
			return
		}
		if len(src) > 400 {
			stats[g.name+" too long"]++
			return
		}
		if seen[src] {
			return
		}
		seen[src] = true
		s := Snip{Src: src, Origin: origin, Class: class}
		s.OK5, s.OK72, s.OK74 = accepted(src, 5, 6), accepted(src, 7, 2), accepted(src, 7, 4)
		acc := s.OK5
		if g.name == "php7" {
			acc = s.OK74 || s.OK72
		}
		if !acc {
			stats[g.name+" "+class+" rejected"]++
			if os.Getenv("GENSENT_DEBUG") != "" {
				fmt.Fprintf(os.Stderr, "REJECTED %s %s: %q\n", g.name, origin, src)
			}
			// derivable from the grammar file but reported as an error by the parser
			// (semantic checks in actions, precedence): kept for the checks that run
			// on inputs with errors
			s.Class = class + "-rejected"
			out = append(out, s)
			return
		}
		stats[g.name+" "+class+" accepted"]++
		out = append(out, s)
	}
	var gs []*grammar
	for _, gn := range []string{"php7", "php5"} {
		g := readGrammar("internal/"+gn+"/"+gn+".y", gn)
		g.analyse()
		stats[gn+" productions"] = len(g.prods)
		gs = append(gs, g)
		// (1) every production
		for _, p := range g.prods {
			if !usable(p) {
				continue
			}
			origin := fmt.Sprintf("%s.y:%s#%d", gn, p.lhs, p.idx)
			if mid, ok := g.expand(p, nil); ok {
				emit(g, "production", origin, p.lhs, mid)
			}
		}
	}
	for _, g := range gs {
		gn := g.name
		for _, p := range g.prods {
			if !usable(p) {
				continue
			}
			origin := fmt.Sprintf("%s.y:%s#%d", gn, p.lhs, p.idx)
			// (2) subsets of nullable right-hand-side symbols
			var nullable []int
			for i, s := range p.rhs {
				if g.isNT(s) && len(g.min[s]) == 0 {
					if _, ok := g.minNE[s]; ok {
						nullable = append(nullable, i)
					}
				}
			}
			if n := len(nullable); n > 0 && n <= 4 {
				for mask := 1; mask < 1<<n; mask++ {
					sub := map[int][]string{}
					for b, i := range nullable {
						if mask&(1<<b) != 0 {
							sub[i] = g.minNE[p.rhs[i]]
						}
					}
					if mid, ok := g.expand(p, sub); ok {
						emit(g, "optional", fmt.Sprintf("%s/opt%d", origin, mask), p.lhs, mid)
					}
				}
			}
			// (3) pairs: every alternative production at every nonterminal position,
			//     alone and with all nullable siblings present
			for i, s := range p.rhs {
				if !g.isNT(s) {
					continue
				}
				for _, q := range g.by[s] {
					if !usable(q) {
						continue
					}
					qm, ok := g.expand(q, nil)
					if !ok {
						continue
					}
					if mid, ok := g.expand(p, map[int][]string{i: qm}); ok {
						emit(g, "pair", fmt.Sprintf("%s/%d=%s#%d", origin, i, s, q.idx), p.lhs, mid)
					}
					if len(nullable) > 0 {
						sub := map[int][]string{i: qm}
						for _, k := range nullable {
							if k != i {
								sub[k] = g.minNE[p.rhs[k]]
							}
						}
						if mid, ok := g.expand(p, sub); ok {
							emit(g, "pair", fmt.Sprintf("%s/%d=%s#%d+opt", origin, i, s, q.idx), p.lhs, mid)
						}
					}
				}
			}
		}
	}
	// (4) pairs with every proper subset of the nullable siblings (the two extremes are
	//     class "pair" above): "trait T implements I {}" - an alternative child together
	//     with one optional clause present and the other absent. Emitted in a separate
	//     pass so that the sentences of (1)-(3) keep their indices.
	for _, g := range gs {
		gn := g.name
		for _, p := range g.prods {
			if !usable(p) {
				continue
			}
			origin := fmt.Sprintf("%s.y:%s#%d", gn, p.lhs, p.idx)
			var nullable []int
			for i, s := range p.rhs {
				if g.isNT(s) && len(g.min[s]) == 0 {
					if _, ok := g.minNE[s]; ok {
						nullable = append(nullable, i)
					}
				}
			}
			if len(nullable) < 2 || len(nullable) > 4 {
				continue
			}
			for i, s := range p.rhs {
				if !g.isNT(s) {
					continue
				}
				var others []int
				for _, k := range nullable {
					if k != i {
						others = append(others, k)
					}
				}
				if len(others) < 2 && !(len(others) == 1 && false) {
					if len(others) < 2 {
						continue
					}
				}
				for _, q := range g.by[s] {
					if !usable(q) {
						continue
					}
					qm, ok := g.expand(q, nil)
					if !ok {
						continue
					}
					for mask := 1; mask < (1<<len(others))-1; mask++ {
						sub := map[int][]string{i: qm}
						for b, k := range others {
							if mask&(1<<b) != 0 {
								sub[k] = g.minNE[p.rhs[k]]
							}
						}
						if mid, ok := g.expand(p, sub); ok {
							emit(g, "pair", fmt.Sprintf("%s/%d=%s#%d+opt%d", origin, i, s, q.idx, mask), p.lhs, mid)
						}
					}
				}
			}
		}
	}
	// (6 - emitted before the doubled programs, after everything else) triples: production p
	//     whose semantic action branches (switch / if / for in its text), position i, child
	//     production q, position j of q, grandchild production r - with all
	//     nullable siblings of p and of q present and, separately, absent. Semantic actions
	//     that switch on the shape of one child while another child is present
	//     ("$a -> a -> a [ ] ( )": a dim-form property followed by a call) need this depth.
	for _, g := range gs {
		gn := g.name
		nullableOf := func(p *prod) []int {
			var nl []int
			for i, s := range p.rhs {
				if g.isNT(s) && len(g.min[s]) == 0 {
					if _, ok := g.minNE[s]; ok {
						nl = append(nl, i)
					}
				}
			}
			return nl
		}
		for _, p := range g.prods {
			if !usable(p) || !p.branchy() {
				continue
			}
			origin := fmt.Sprintf("%s.y:%s#%d", gn, p.lhs, p.idx)
			pNull := nullableOf(p)
			for i, s := range p.rhs {
				if !g.isNT(s) {
					continue
				}
				for _, q := range g.by[s] {
					if !usable(q) {
						continue
					}
					qNull := nullableOf(q)
					for j, t := range q.rhs {
						if !g.isNT(t) || len(g.by[t]) < 2 {
							continue
						}
						for _, r := range g.by[t] {
							if !usable(r) {
								continue
							}
							rm, ok := g.expand(r, nil)
							if !ok {
								continue
							}
							for _, withOpt := range []bool{false, true} {
								if withOpt && len(pNull) == 0 && len(qNull) == 0 {
									continue
								}
								qsub := map[int][]string{j: rm}
								if withOpt {
									for _, k := range qNull {
										if k != j {
											qsub[k] = g.minNE[q.rhs[k]]
										}
									}
								}
								qm, ok := g.expand(q, qsub)
								if !ok {
									continue
								}
								psub := map[int][]string{i: qm}
								if withOpt {
									for _, k := range pNull {
										if k != i {
											psub[k] = g.minNE[p.rhs[k]]
										}
									}
								}
								if mid, ok := g.expand(p, psub); ok {
									tag := ""
									if withOpt {
										tag = "+opt"
									}
									emit(g, "triple", fmt.Sprintf("%s/%d=%s#%d/%d=%s#%d%s", origin, i, s, q.idx, j, t, r.idx, tag), p.lhs, mid)
								}
							}
						}
					}
				}
			}
		}
	}
	// (5) doubled programs: the code of every accepted production/optional sentence twice in
	//     a row. What the first copy leaves behind (parser value stack, lexer state, pools)
	//     is what the second copy starts from.
	n0 := len(out)
	for k := 0; k < n0; k++ {
		s := out[k]
		if s.Class != "production" && s.Class != "optional" {
			continue
		}
		const open = "<?php "
		if !strings.HasPrefix(s.Src, open) || len(s.Src) <= len(open) || len(s.Src) > 200 {
			continue
		}
		body := s.Src[len(open):]
		src := open + body + " " + body
		if seen[src] {
			continue
		}
		d := Snip{Src: src, Origin: s.Origin + "/x2", Class: "double"}
		d.OK5, d.OK72, d.OK74 = accepted(src, 5, 6), accepted(src, 7, 2), accepted(src, 7, 4)
		// kept only where doubling preserves what the single sentence was accepted under
		if (s.OK5 && !d.OK5) || (s.OK72 && !d.OK72) || (s.OK74 && !d.OK74) {
			stats["double not accepted"]++
			continue
		}
		seen[src] = true
		stats["double accepted"]++
		out = append(out, d)
	}
	// (7) "dirty stack" programs: every accepted production/optional sentence behind a statement
	//     that leaves nodes, tokens and lists in the parser's value-stack slots at every depth
	//     (right-nested assignments put nodes at even offsets, the same behind "echo" at odd
	//     offsets, nested calls leave lists). goyacc starts every action with
	//     yyVAL = yyS[yyp+1]: an empty production that does not set $$ hands the stale slot on.
	dirty := []string{
		"$a = $b = $c = $d = $e = $f = $g = $h = 1 ;",
		"echo $a = $b = $c = $d = $e = $f = $g = $h = 1 ;",
		"f ( g ( h ( i ( 1 , 2 ) , 3 ) , 4 ) , 5 ) ;",
		"echo f ( g ( h ( i ( 1 , 2 ) , 3 ) , 4 ) , 5 ) ;",
	}
	for k := 0; k < n0; k++ {
		s := out[k]
		if s.Class != "production" && s.Class != "optional" {
			continue
		}
		const open = "<?php "
		if !strings.HasPrefix(s.Src, open) || len(s.Src) <= len(open) || len(s.Src) > 200 {
			continue
		}
		body := s.Src[len(open):]
		if strings.HasPrefix(body, "namespace") || strings.HasPrefix(body, "declare") || strings.HasPrefix(body, "use ") {
			// must stay the first statement
			continue
		}
		for di, d := range dirty {
			src := open + d + " " + body
			if seen[src] {
				continue
			}
			e := Snip{Src: src, Origin: fmt.Sprintf("%s/dirty%d", s.Origin, di), Class: "dirty"}
			e.OK5, e.OK72, e.OK74 = accepted(src, 5, 6), accepted(src, 7, 2), accepted(src, 7, 4)
			if (s.OK5 && !e.OK5) || (s.OK72 && !e.OK72) || (s.OK74 && !e.OK74) {
				stats["dirty not accepted"]++
				continue
			}
			seen[src] = true
			stats["dirty accepted"]++
			out = append(out, e)
		}
	}
	var keys []string
	for k := range stats {
		keys = append(keys, k)
	}
	sort.Strings(keys)
	for _, k := range keys {
		fmt.Fprintf(os.Stderr, "%-40s %d\n", k, stats[k])
	}
	enc := json.NewEncoder(os.Stdout)
	enc.SetIndent("", " ")
	enc.Encode(out)
}
