#!/bin/bash
# thorough.sh <id>... : runs the thorough tier of the listed checks on /repo as it is,
# keeps log and evidence under work/thorough/ and restores the committed (quick) evidence.
cd /verif; mkdir -p work/thorough
for id in "$@"; do
  cp evidence/$id.json work/thorough/$id.quick.bak 2>/dev/null
  start=$(date +%s)
  VERIF_FORCE_THOROUGH=1 timeout ${THOROUGH_TIMEOUT:-7200} ./bin/check $id --tier thorough > work/thorough/$id.log 2>&1
  rc=$?
  end=$(date +%s)
  cp evidence/$id.json work/thorough/$id.evidence.json 2>/dev/null
  cp work/thorough/$id.quick.bak evidence/$id.json 2>/dev/null
  echo "$id thorough rc=$rc $((end-start))s $(grep -a '^C[0-9][0-9] thorough' work/thorough/$id.log | cut -c1-200)"
  grep -a "^VIOLATION\|signature:\|ENGINE\|VACUOUS\|^ERROR" work/thorough/$id.log | cut -c1-250 | head -20
done
