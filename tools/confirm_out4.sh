#!/bin/bash
# confirm_out4.sh <Cxx> : confirms /tmp/wt/out4-Cxx/{X,Y} as seeds Cxx-E / Cxx-F
id=$1
for pair in X:E Y:F; do
  d=${pair%%:*}; n=${pair##*:}
  src=/tmp/wt/out4-$id/$d
  [ -f $src/patch.diff ] || { echo "missing $src"; continue; }
  pkg=$(head -1 $src/notes.md | sed 's/^demo-package-dir: *//' | tr -d '` ')
  /verif/tools/confirm_seed.sh $src $id-$n $id "$pkg"
done
