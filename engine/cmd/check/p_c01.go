package main

func init() {
	props["C01"] = &propImpl{files: []string{"h_lib.go", "h_c01.go"}, run: runC01}
}

// lexical-mode prefixes (shape S2 of DESIGN.md)
var modePrefixes = []string{
	"<?php \"", "<?php `", "<?php <<<A\n", "<?php <<<'A'\n", "<?php <<<\"A\"\n",
	"<?php $a->", "<?php \"$a", "<?php \"$a[", "<?php \"${", "<?php \"{$",
	"<?php __halt_compiler", "<?php //", "<?php #", "<?php /*", "<?php '",
}

func runC01(c *Check) error {
	K0, K1, K2 := 3, 2, 2
	vers := "7.4,5.6"
	if c.Tier == "thorough" {
		K0, K1, K2 = 5, 3, 4
		vers = "7.4,7.2,5.6"
	}
	fuel := int64(600_000)
	c.Bounds = append(c.Bounds,
		bound("S0 raw input: every byte string of length 0..%d", K0),
		bound("S1 \"<?php \" / \"<?\" / \"<?=\" followed by every byte string of length 0..%d", K1),
		bound("S2 %d lexical-mode prefixes followed by every byte string of length 0..%d", len(modePrefixes), K2),
		"versions "+vers+" (one representative per behaviour class; class equivalence is C09's claim), callback set and nil on every path",
		bound("termination: %d SSA instructions per path (linear budget: a normal parse of these inputs uses < 10%%)", int(fuel)))
	c.Assumptions = append(c.Assumptions, stdAssumptions...)
	c.Explore(jobTmpl("H_C01", "S0", tmpl(tH('a', 0, K0)), vers, fuel), nil)
	for _, p := range []string{"<?php ", "<?", "<?="} {
		c.Explore(jobTmpl("H_C01", "S1", tmpl(tC(p), tH('a', 0, K1)), vers, fuel), nil)
	}
	for _, p := range modePrefixes {
		c.Explore(jobTmpl("H_C01", "S2", tmpl(tC(p), tH('a', 0, K2)), vers, fuel), nil)
	}
	return nil
}
