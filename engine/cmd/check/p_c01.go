package main

func init() {
	props["C01"] = &propImpl{files: []string{"h_lib.go", "h_c01.go", "h_step.go"}, run: runC01,
		fallbackFiles: []string{"h_lib.go", "h_c01.go"}, hooks: []string{"internal/scanner", "internal/position", "pkg/token", "pkg/position"}, fallbackRun: runC01}
}

// lexical-mode prefixes (shape S2 of DESIGN.md)
var modePrefixes = []string{
	"<?php \"", "<?php `", "<?php <<<A\n", "<?php <<<'A'\n", "<?php <<<\"A\"\n",
	"<?php $a->", "<?php \"$a", "<?php \"$a[", "<?php \"${", "<?php \"{$",
	"<?php __halt_compiler", "<?php //", "<?php #", "<?php /*", "<?php '",
	"<?php \"$a->", "<?php <<<A\n$a[",
}

// PHP-mode prefixes (numbers, variables, names, brackets, close tag) and prefixes that
// start outside PHP (shebang line, inline HTML): followed by the S1 number of bytes.
var phpPrefixes = []string{
	"<?php 1", "<?php 0x", "<?php 0b", "<?php 1.", "<?php 1e", "<?php $", "<?php $a", "<?php a", "<?php \\", "<?php (", "<?php ?>", "<?php {}",
}

var rawPrefixes = []string{
	"#!\n", "#!\n#", "#!a\n<?php ", "a<?php ", "<?php ?>\n", "<?= 1 ?>", "<?php echo 1 ?>\n",
}

func runC01(c *Check) error {
	K0, K1, K2 := 3, 2, 2
	vers := "7.4,5.6"
	if c.Tier == "thorough" {
		K0, K1, K2 = 4, 3, 3
		vers = "7.4,7.2,5.6"
	}
	fuel := int64(600_000)
	c.Bounds = append(c.Bounds,
		bound("S0 raw input: every byte string of length 0..%d", K0),
		bound("S1 \"<?php \" / \"<?\" / \"<?=\" / \"<?php\" followed by every byte string of length 0..%d", K1),
		bound("S2 %d lexical-mode prefixes followed by every byte string of length 0..%d; %d PHP-mode and %d HTML-mode prefixes followed by every byte string of length 0..%d (at most 2); %d string-offset shapes (\"$a[ / \"$a[- / heredoc $a[-, every byte string of length 0..%d (the first shape) / 0..%d, then ] and the closing quote or label)", len(modePrefixes), K2, len(phpPrefixes), len(rawPrefixes), K1, len(offsetShapes), K2+1, K2),
		"versions "+vers+" (one representative per behaviour class; class equivalence is C09's claim), callback set and nil on every path",
		bound("termination: %d SSA instructions per path (linear budget: a normal parse of these inputs uses < 10%%)", int(fuel)))
	c.Assumptions = append(c.Assumptions, stdAssumptions...)
	stepJobs(c)
	c.Explore(jobTmpl("H_C01", "S0", tmpl(tH('a', 0, K0)), vers, fuel), nil)
	var needs []JobNeed
	for _, p := range []string{"<?php ", "<?", "<?=", "<?php"} {
		needs = append(needs, JobNeed{Job: jobTmpl("H_C01", "S1", tmpl(tC(p), tH('a', 0, K1)), vers, fuel)})
	}
	for _, p := range modePrefixes {
		needs = append(needs, JobNeed{Job: jobTmpl("H_C01", "S2", tmpl(tC(p), tH('a', 0, K2)), vers, fuel)})
	}
	for _, p := range append(append([]string{}, phpPrefixes...), rawPrefixes...) {
		needs = append(needs, JobNeed{Job: jobTmpl("H_C01", "S2", tmpl(tC(p), tH('a', 0, prefixK(K1))), vers, fuel)})
	}
	for i, ps := range offsetShapes {
		k := K2
		if i == 0 {
			k = K2 + 1
		}
		needs = append(needs, JobNeed{Job: jobTmpl("H_C01", "S2", tmpl(tC(ps[0]), tH('a', 0, k), tC(ps[1])), vers, fuel)})
	}
	c.ExploreNeeds(needs, nil)
	// the corpus (test snippets + grammar sentences) as written, and with one symbolic
	// byte inserted / replaced / deleted at every n-th offset (S3)
	every := tierEvery(c, 24, 6)
	for _, ver := range []string{"7.4", "5.6"} {
		whole, err := c.wholeJobs("H_C01", ver, 3_000_000, false)
		if err != nil {
			return err
		}
		c.ExploreNeeds(whole, nil)
		win, err := c.windowJobs("H_C01", ver, every, 3_000_000, 120, true)
		if err != nil {
			return err
		}
		c.ExploreNeeds(win, nil)
	}
	c.ExploreNeeds(longShapes("H_C01", 3_000_000), nil)
	c.Bounds = append(c.Bounds, corpusBound(0, false), bound("S3: test snippets of at most 120 bytes with one arbitrary byte inserted, replaced or deleted at every %d-th offset", every), longBound)
	return nil
}
