package main

// Generic property-check flow: generate helpers from /repo, load the harness into
// the engine, explore every job, replay every witness natively (translator
// validation), classify findings against /verif/known_findings.json, write
// evidence, print VIOLATION / KNOWN-FINDING lines.

import (
	"crypto/sha1"
	"encoding/json"
	"fmt"
	"os"
	"path/filepath"
	"regexp"
	"sort"
	"strings"
	"time"

	"verif/engine/interp"
)

type Finding struct {
	Property  string
	Signature string
	What      string
	Job       *interp.Job
	Witness   []uint64
	Input     string // rendered input, if observed
	Count     int
	Kind      string // panic | hang | assert
	AssertID  string
}

type KnownFile struct {
	Findings []KnownFinding `json:"findings"`
	Fixed    []string       `json:"fixed"`
}

type KnownFinding struct {
	Property  string `json:"property"`
	Signature string `json:"signature"`
	What      string `json:"what"`
	Example   string `json:"example,omitempty"`
}

func loadKnown() (*KnownFile, error) {
	kf := &KnownFile{}
	b, err := os.ReadFile(filepath.Join(verifDir, "known_findings.json"))
	if err != nil {
		if os.IsNotExist(err) {
			return kf, nil
		}
		return nil, err
	}
	if err := json.Unmarshal(b, kf); err != nil {
		return nil, fmt.Errorf("known_findings.json: %v", err)
	}
	return kf, nil
}

func (kf *KnownFile) match(prop, sig string) *KnownFinding {
	for i := range kf.Findings {
		k := &kf.Findings[i]
		if k.Property == prop && k.Signature == sig {
			return k
		}
	}
	return nil
}

type Evidence struct {
	PropertyID  string                 `json:"property_id"`
	Tier        string                 `json:"tier"`
	Seed        int64                  `json:"seed"`
	Level       string                 `json:"level"`
	Coverage    map[string]interface{} `json:"coverage"`
	Assumptions []string               `json:"assumptions"`
	WallS       float64                `json:"wall_s"`
	Violations  int                    `json:"violations"`
}

// Check is the per-run state shared by all property implementations.
type Check struct {
	ID      string
	Tier    string
	// ReportTier: the tier the command was asked for (Tier is the one whose bounds are explored;
	// they differ for a thorough run of a check whose deeper bounds are not registered)
	ReportTier string
	Seed    int64
	R       *Runner
	Known   *KnownFile
	T0      time.Time
	Level   string
	Workers int
	// TriviaEmpty: trivia jobs also try "no trivia at all" / a single blank in the gap
	// (only for properties that do not compare with the unmodified program)
	TriviaEmpty bool

	// accumulated over jobs
	Stats           interp.Stats
	Jobs            int
	JobTags         map[string]int64
	findings        map[string]*Finding
	cases           []NativeCase
	caseMeta        []caseMeta
	samples         []interface{}
	Inconclusive    map[string]int64
	Covers          map[string]int64
	Assumptions     []string
	Bounds          []string
	Extra           map[string]interface{}
	EngineErrors    []string
	Mismatches      []string
	Validated       int
	Vacuous         []string
	KnownCrashPaths int64
	funcs           map[string]int64
}

type caseMeta struct {
	outcome  interp.Outcome
	obs      []interp.Observation
	msg      string
	site     string
	expectID string // assertion id expected to fail natively ("" = none)
	sig      string
	job      *interp.Job
	nfail    int
}

func newCheck(id, tier string, seed int64) *Check {
	return &Check{ID: id, Tier: tier, ReportTier: tier, Seed: seed, T0: time.Now(), Level: "model_checking",
		findings: map[string]*Finding{}, Inconclusive: map[string]int64{}, Covers: map[string]int64{},
		JobTags: map[string]int64{}, Extra: map[string]interface{}{}, funcs: map[string]int64{}, Workers: 16}
}

var numRe = regexp.MustCompile(`\d+`)

func normMsg(m string) string {
	m = firstLine(m)
	return numRe.ReplaceAllString(m, "N")
}

var srcCache = map[string][]string{}

// sourceLine returns the trimmed text of file:line under /repo (signatures use the
// text, not the number, so unrelated edits do not move them).
func sourceLine(site string) string {
	i := strings.LastIndexByte(site, ':')
	if i < 0 {
		return site
	}
	file, ln := site[:i], 0
	fmt.Sscanf(site[i+1:], "%d", &ln)
	path := file
	if !filepath.IsAbs(path) {
		path = filepath.Join(repoDir, file)
	}
	lines, ok := srcCache[path]
	if !ok {
		b, err := os.ReadFile(path)
		if err == nil {
			lines = strings.Split(string(b), "\n")
		}
		srcCache[path] = lines
	}
	if ln >= 1 && ln <= len(lines) {
		return file + ": " + strings.TrimSpace(lines[ln-1])
	}
	return site
}

func shortFn(fn string) string {
	return strings.ReplaceAll(fn, "github.com/z7zmey/php-parser/", "")
}

func obsValue(obs []interp.Observation, tag string) string {
	for _, o := range obs {
		if o.Tag == tag {
			return o.Val
		}
	}
	return ""
}

func (c *Check) addFinding(f *Finding) {
	if old, ok := c.findings[f.Signature]; ok {
		old.Count++
		return
	}
	f.Count = 1
	f.Property = c.ID
	c.findings[f.Signature] = f
}

// Explore runs one job and feeds the generic bookkeeping; extra is called for
// every finished path (may be nil).
func (c *Check) Explore(job *interp.Job, extra func(pr *interp.PathResult)) interp.Stats {
	return c.ExploreAll([]*interp.Job{job}, extra)
}

// JobNeed: Cover points at least one path of the job must reach (vacuity guard).
type JobNeed struct {
	Job   *interp.Job
	Cover []string
}

// ExploreNeeds explores all jobs on one worker pool and checks each job's
// reachability witnesses.
func (c *Check) ExploreNeeds(needs []JobNeed, extra func(pr *interp.PathResult)) interp.Stats {
	seen := map[*interp.Job]map[string]bool{}
	var jobs []*interp.Job
	for _, n := range needs {
		jobs = append(jobs, n.Job)
		seen[n.Job] = map[string]bool{}
	}
	st := c.ExploreAll(jobs, func(pr *interp.PathResult) {
		for _, cv := range pr.Covers {
			seen[pr.Job][cv] = true
		}
		if extra != nil {
			extra(pr)
		}
	})
	for _, n := range needs {
		for _, cv := range n.Cover {
			if !seen[n.Job][cv] {
				c.Vacuous = append(c.Vacuous, fmt.Sprintf("%s %v: no path reaches %q", n.Job.Entry, n.Job.Params, cv))
			}
		}
	}
	return st
}

// ExploreAll explores the jobs on one shared worker pool.
func (c *Check) ExploreAll(jobs []*interp.Job, extra func(pr *interp.PathResult)) interp.Stats {
	c.Jobs += len(jobs)
	st := c.R.Eng.ExploreMany(jobs, func(pr *interp.PathResult) {
		job := pr.Job
		c.JobTags[job.Tag]++
		in := obsValue(pr.Obs, "in")
		switch pr.Outcome {
		case interp.OutEngineError:
			if len(c.EngineErrors) < 5 {
				c.EngineErrors = append(c.EngineErrors, job.Entry+": "+pr.Msg)
			}
		case interp.OutUnsupported:
			c.Inconclusive["unsupported: "+normMsg(pr.Msg)]++
		case interp.OutInconclusive:
			c.Inconclusive["solver-unknown"]++
		case interp.OutPanic:
			sig := fmt.Sprintf("panic|%s|%s|%s", shortFn(pr.Func), sourceLine(pr.Site), normMsg(pr.Msg))
			if c.ID != "C01" && c.Known.match("C01", sig) != nil {
				// a crash that is already recorded as a known finding of C01 is not
				// re-reported by every other property whose exploration meets it
				c.KnownCrashPaths++
				c.addCase(job, pr, "", sig)
				break
			}
			c.addFinding(&Finding{Signature: sig, What: fmt.Sprintf("panic %q in %s at %s", firstLine(pr.Msg), shortFn(pr.Func), pr.Site), Job: job, Witness: pr.Witness, Input: in, Kind: "panic"})
			c.addCase(job, pr, "", sig)
		case interp.OutHang:
			sig := "hang|" + hangClass(pr.Msg)
			c.addFinding(&Finding{Signature: sig, What: "no termination within the instruction budget: " + firstLine(pr.Msg), Job: job, Witness: pr.Witness, Input: in, Kind: "hang"})
			c.addCase(job, pr, "", sig)
		case interp.OutOK:
			c.addCase(job, pr, "", "")
		}
		if pr.Approx {
			c.Inconclusive["approximate (solver unknown at a branch)"]++
		}
		for _, f := range pr.Failures {
			if strings.HasPrefix(f.ID, "INCONCLUSIVE:") {
				c.Inconclusive["assertion undecided: "+f.ID[13:]]++
				continue
			}
			sig := c.assertSignature(f, pr)
			w := f.Witness
			if w == nil {
				w = pr.Witness
			}
			c.addFinding(&Finding{Signature: sig, What: fmt.Sprintf("assertion %s violated (%s) %s", f.ID, f.Site, f.Msg), Job: job, Witness: w, Input: in, Kind: "assert", AssertID: f.ID})
			if job.NoReplay {
			} else if f.Witness != nil {
				c.cases = append(c.cases, NativeCase{ID: len(c.cases), Entry: job.Entry, Params: job.Params, Witness: f.Witness})
				c.caseMeta = append(c.caseMeta, caseMeta{outcome: -1, expectID: f.ID, sig: sig, job: job})
			} else if pr.Witness != nil {
				// failure holds on the whole path: the path's own witness must show it
				c.cases = append(c.cases, NativeCase{ID: len(c.cases), Entry: job.Entry, Params: job.Params, Witness: pr.Witness})
				c.caseMeta = append(c.caseMeta, caseMeta{outcome: -1, expectID: f.ID, sig: sig, job: job})
			}
		}
		for _, cv := range pr.Covers {
			c.Covers[cv]++
		}
		if len(c.samples) < 12 && pr.Witness != nil && (pr.Outcome == interp.OutOK || pr.Outcome == interp.OutPanic) && (c.Stats.Paths+int64(len(c.samples)))%7 == 0 {
			c.samples = append(c.samples, map[string]interface{}{"entry": job.Entry, "tag": job.Tag, "outcome": pr.Outcome.String(), "input": in, "witness": pr.Witness, "observations": len(pr.Obs)})
		}
		if extra != nil {
			extra(pr)
		}
	})
	c.mergeStats(st)
	return st
}

func (c *Check) assertSignature(f interp.Failure, pr *interp.PathResult) string {
	sig := "assert|" + f.ID
	if f.Msg != "" {
		sig += "|" + f.Msg
	}
	return sig
}

func hangClass(msg string) string {
	// "instruction budget exhausted in <fn> at <site>" -> pipeline stage
	switch {
	case strings.Contains(msg, "call depth"):
		return "recursion"
	case strings.Contains(msg, "internal/scanner"):
		return "lexer"
	case strings.Contains(msg, "internal/php5"), strings.Contains(msg, "internal/php7"):
		return "parser"
	case strings.Contains(msg, "pkg/visitor"):
		return "visitor"
	}
	return "other"
}

func (c *Check) addCase(job *interp.Job, pr *interp.PathResult, expect, sig string) {
	if pr.Witness == nil || job.NoReplay {
		return
	}
	c.cases = append(c.cases, NativeCase{ID: len(c.cases), Entry: job.Entry, Params: job.Params, Witness: pr.Witness})
	c.caseMeta = append(c.caseMeta, caseMeta{outcome: pr.Outcome, obs: pr.Obs, msg: pr.Msg, site: pr.Site, sig: sig, job: job, nfail: len(pr.Failures)})
}

func (c *Check) mergeStats(st interp.Stats) {
	s := &c.Stats
	s.Paths += st.Paths
	s.Forks += st.Forks
	s.Instrs += st.Instrs
	s.Z3Queries += st.Z3Queries
	s.Z3Seconds += st.Z3Seconds
	s.Z3Errors += st.Z3Errors
	if st.Z3Slowest > s.Z3Slowest {
		s.Z3Slowest = st.Z3Slowest
	}
	s.DomQueries += st.DomQueries
	s.DomRechecked += st.DomRechecked
	s.DomDisagree += st.DomDisagree
	s.Obligations += st.Obligations
	s.Discharged += st.Discharged
	s.Truncated = s.Truncated || st.Truncated
	if s.ByOutcome == nil {
		s.ByOutcome = map[string]int64{}
	}
	for k, v := range st.ByOutcome {
		s.ByOutcome[k] += v
	}
	for k, v := range st.Funcs {
		c.funcs[k] += v
	}
}

// Validate replays every collected witness natively and compares.
func (c *Check) Validate() error {
	if len(c.cases) == 0 {
		return nil
	}
	nres, err := c.R.Replay(c.cases, c.Workers)
	if err != nil {
		return err
	}
	for i := range c.cases {
		m := c.caseMeta[i]
		nr := nres[i]
		if nr == nil {
			c.mismatch(i, "no native result")
			continue
		}
		if m.expectID != "" {
			found := false
			for _, f := range nr.Failures {
				if f == m.expectID {
					found = true
				}
			}
			if !found && engineOnlyAssertion(m.expectID) {
				// decided by the engine's static-memory write monitor, which has no
				// native counterpart: the replay only has to run
				c.Validated++
				continue
			}
			if !found && nr.Outcome != "panic" && nr.Outcome != "hang" && nr.Outcome != "crash" {
				c.mismatch(i, fmt.Sprintf("assertion %s fails in the engine but holds natively (outcome %s, failures %v)", m.expectID, nr.Outcome, nr.Failures))
				continue
			}
			c.Validated++
			continue
		}
		pr := &interp.PathResult{Outcome: m.outcome, Obs: m.obs, Msg: m.msg, Site: m.site, Failures: make([]interp.Failure, m.nfail)}
		if ok, why := agree(pr, nr); !ok {
			c.mismatch(i, why)
			continue
		}
		c.Validated++
	}
	return nil
}

func (c *Check) mismatch(i int, why string) {
	if len(c.Mismatches) < 10 {
		c.Mismatches = append(c.Mismatches, fmt.Sprintf("%s %v witness=%v: %s", c.cases[i].Entry, c.cases[i].Params, c.cases[i].Witness, why))
	} else {
		c.Mismatches = append(c.Mismatches, "")
	}
}

// Finish classifies findings, writes replay files and evidence, prints the verdict
// lines and returns the exit code.
func (c *Check) Finish() int {
	wall := time.Since(c.T0).Seconds()
	if len(c.EngineErrors) > 0 {
		for _, e := range c.EngineErrors {
			fmt.Printf("ENGINE-ERROR: %s\n", firstLine(e))
			fmt.Fprintln(os.Stderr, e)
		}
		c.writeEvidence(wall, 0, "engine error: no verdict")
		return 2
	}
	if len(c.Mismatches) > 0 {
		for _, m := range c.Mismatches {
			if m != "" {
				fmt.Printf("ENGINE-MISMATCH: %s\n", m)
			}
		}
		fmt.Printf("ENGINE-MISMATCH: %d witness(es) behave differently on the natively compiled code; no verdict\n", len(c.Mismatches))
		c.writeEvidence(wall, 0, "engine/native mismatch: no verdict")
		return 2
	}
	var sigs []string
	for s := range c.findings {
		sigs = append(sigs, s)
	}
	sort.Strings(sigs)
	violations := 0
	for _, s := range sigs {
		f := c.findings[s]
		if k := c.Known.match(c.ID, s); k != nil {
			fmt.Printf("KNOWN-FINDING: property=%s %s [%s] (%d path(s) this run)\n", c.ID, k.What, s, f.Count)
			continue
		}
		violations++
		path := c.writeReplay(f)
		fmt.Printf("VIOLATION property=%s replay=%s\n", c.ID, path)
		fmt.Printf("  signature: %s\n  what: %s\n  input: %s\n  paths: %d\n", s, f.What, f.Input, f.Count)
	}
	if violations == 0 && len(c.Vacuous) > 0 {
		for _, v := range c.Vacuous {
			fmt.Printf("VACUOUS: %s\n", v)
		}
		c.writeEvidence(wall, 0, "vacuous harness: no verdict")
		return 2
	}
	c.writeEvidence(wall, violations, "")
	fmt.Printf("%s %s: %d path(s), %d fork(s), %d solver queries (%.1fs), %d domain decisions, %d native replays agree, %d inconclusive, %d violation signature(s), %.1fs\n",
		c.ID, c.ReportTier, c.Stats.Paths, c.Stats.Forks, c.Stats.Z3Queries, c.Stats.Z3Seconds, c.Stats.DomQueries, c.Validated, c.inconclusiveTotal(), violations, wall)
	if violations > 0 {
		return 1
	}
	return 0
}

func (c *Check) inconclusiveTotal() int64 {
	var n int64
	for _, v := range c.Inconclusive {
		n += v
	}
	return n
}

type ReplayFile struct {
	Property  string                 `json:"property"`
	Signature string                 `json:"signature"`
	What      string                 `json:"what"`
	Entry     string                 `json:"entry"`
	Params    map[string]interface{} `json:"params"`
	Witness   []uint64               `json:"witness"`
	Input     string                 `json:"input"`
	Kind      string                 `json:"kind"`
	AssertID  string                 `json:"assert_id,omitempty"`
	Harness   []string               `json:"harness_files"`
}

func (c *Check) writeReplay(f *Finding) string {
	dir := filepath.Join(outDir, "replays", c.ID)
	os.MkdirAll(dir, 0o755)
	h := sha1.Sum([]byte(f.Signature))
	path := filepath.Join(dir, fmt.Sprintf("%x.json", h[:6]))
	rf := ReplayFile{Property: c.ID, Signature: f.Signature, What: f.What, Entry: f.Job.Entry, Params: f.Job.Params, Witness: f.Witness, Input: f.Input, Kind: f.Kind, AssertID: f.AssertID}
	b, _ := json.MarshalIndent(rf, "", " ")
	os.WriteFile(path, b, 0o644)
	return path
}

func (c *Check) writeEvidence(wall float64, violations int, note string) {
	type fnCount struct {
		Name  string `json:"name"`
		Calls int64  `json:"entries"`
	}
	var fns []fnCount
	for k, v := range c.funcs {
		fns = append(fns, fnCount{shortFn(k), v})
	}
	sort.Slice(fns, func(a, b int) bool { return fns[a].Calls > fns[b].Calls })
	nfn := len(fns)
	if len(fns) > 40 {
		fns = fns[:40]
	}
	samples := c.samples
	if len(samples) == 0 {
		samples = []interface{}{map[string]interface{}{"note": "no path produced a witness"}}
	}
	cov := map[string]interface{}{
		"states":                        c.Stats.Paths,
		"transitions":                   c.Stats.Forks + c.Stats.Paths,
		"traces_validated_against_impl": c.Validated,
		"samples":                       samples,
		"paths_by_outcome":              c.Stats.ByOutcome,
		"jobs":                          c.Jobs,
		"paths_by_job_family":           c.JobTags,
		"ssa_instructions_executed":     c.Stats.Instrs,
		"functions_encoded_count":       nfn,
		"functions_encoded_top":         fns,
		"bounds":                        c.Bounds,
		"solver":                        map[string]interface{}{"back_end": c.R.Eng.SolverCmd, "queries": c.Stats.Z3Queries, "seconds": c.Stats.Z3Seconds, "slowest_query_s": c.Stats.Z3Slowest, "errors": c.Stats.Z3Errors},
		"byte_domain_decisions":         c.Stats.DomQueries,
		"byte_domain_rechecked_by_z3":   c.Stats.DomRechecked,
		"byte_domain_disagreements":     c.Stats.DomDisagree,
		"obligations":                   c.Stats.Obligations,
		"discharged":                    c.Stats.Discharged,
		"inconclusive":                  c.Inconclusive,
		"reachability_covers":           c.Covers,
		"truncated":                     c.Stats.Truncated,
		"exhaustive":                    !c.Stats.Truncated && c.inconclusiveTotal() == 0,
		"encoding":                      "SSA of /repo's working tree rebuilt by go/packages+go/ssa on this run; harness injected by overlay",
		"load_s":                        c.R.LoadSecs,
		"native_build_s":                c.R.BuildSecs,
	}
	if c.KnownCrashPaths > 0 {
		cov["paths_ending_in_a_known_C01_crash"] = c.KnownCrashPaths
	}
	if note != "" {
		cov["note"] = note
	}
	for k, v := range c.Extra {
		cov[k] = v
	}
	if c.Level == "proof" {
		cov["checker_cmd"] = strings.Join([]string{c.R.Eng.SolverCmd, "-in"}, " ")
		cov["trusted_base"] = []string{"go/packages + go/ssa v0.29.0 front end", "symgo interpreter semantics for the SSA instruction kinds and Go run-time checks", "models of the std functions listed under assumptions", c.R.Eng.SolverCmd, "the harness/oracle code in /verif/harness"}
	}
	ev := Evidence{PropertyID: c.ID, Tier: c.ReportTier, Seed: c.Seed, Level: c.Level, Coverage: cov, Assumptions: c.Assumptions, WallS: wall, Violations: violations}
	if ev.Assumptions == nil {
		ev.Assumptions = []string{}
	}
	b, _ := json.MarshalIndent(ev, "", " ")
	os.MkdirAll(filepath.Join(outDir, "evidence"), 0o755)
	os.WriteFile(filepath.Join(outDir, "evidence", c.ID+".json"), b, 0o644)
}

// tmpl helpers -----------------------------------------------------------------

func tC(s string) string { return "C" + s }

// tH: hole of class c with every length min..max.
func tH(class byte, min, max int) string { return fmt.Sprintf("H%c%d%d", class, min, max) }

func tmpl(segs ...string) string { return strings.Join(segs, "\x00") }

func jobTmpl(entry, tag, t, ver string, fuel int64) *interp.Job {
	return &interp.Job{Entry: entry, Tag: tag, Fuel: fuel, Params: map[string]interface{}{"tmpl": t, "ver": ver}}
}

// ExploreNeed explores job and records the harness as vacuous unless at least
// one path reached every named Cover point (reachability witness).
func (c *Check) ExploreNeed(job *interp.Job, covers ...string) interp.Stats {
	seen := map[string]int{}
	st := c.Explore(job, func(pr *interp.PathResult) {
		for _, cv := range pr.Covers {
			seen[cv]++
		}
	})
	for _, cv := range covers {
		if seen[cv] == 0 {
			c.Vacuous = append(c.Vacuous, fmt.Sprintf("%s %v: no path reaches %q", job.Entry, job.Params, cv))
		}
	}
	return st
}

// engineOnlyAssertion: assertions whose verdict comes from the engine's
// static-memory write monitor (natively LibStaticWrites() is always 0).
func engineOnlyAssertion(id string) bool {
	for _, s := range []string{"static-state-unchanged", "writes-shared-memory", "no-static-write"} {
		if strings.Contains(id, s) {
			return true
		}
	}
	return false
}
