package main

// Program shapes from the committed corpus: baseline probing (natively, on the
// current tree) and template generation for the shapes S3 (windows), S4 (trivia
// holes) and S5 (lexeme holes) of DESIGN.md section 3.

import (
	"encoding/json"
	"fmt"
	"os"
	"path/filepath"
	"sort"
	"strconv"
	"strings"
	"unicode/utf8"

	"verif/engine/interp"
)

type Snip struct {
	Src    string `json:"src"`
	Origin string `json:"origin"`
	Class  string `json:"class"` // "" (test snippet) | production | optional | pair (generated from the .y files)
	OK5    bool   `json:"ok5"`
	OK72   bool   `json:"ok72"`
	OK74   bool   `json:"ok74"`
	ID     int    `json:"-"`
}

type TokInfo struct {
	ID         int
	Start, End int
	FF         bool
}

type Probe struct {
	NErr int
	Toks []TokInfo // source order, free-floating tokens included
}

// loadCorpus: the snippets of the repository's own tests followed by the sentences
// generated from the grammar files (tools/gensentences), both with their baseline
// acceptance per version class.
func loadCorpus() ([]*Snip, error) {
	var out []*Snip
	seen := map[string]bool{}
	for _, f := range []string{"snippets.json", "extra.json", "sentences.json"} {
		b, err := os.ReadFile(filepath.Join(verifDir, "corpus", f))
		if err != nil {
			return nil, err
		}
		var part []*Snip
		if err := json.Unmarshal(b, &part); err != nil {
			return nil, err
		}
		for _, s := range part {
			if seen[s.Src] || strings.IndexByte(s.Src, 0) >= 0 {
				// (a NUL byte is the segment separator of the template encoding)
				continue
			}
			seen[s.Src] = true
			out = append(out, s)
		}
	}
	for i, s := range out {
		s.ID = i
	}
	return out, nil
}

func (s *Snip) okFor(ver string) bool {
	switch ver {
	case "5.6":
		return s.OK5
	case "7.2":
		return s.OK72
	}
	return s.OK74
}

// probeCorpus runs H_Probe natively for every snippet under ver.
func (c *Check) probeCorpus(snips []*Snip, ver string) (map[int]*Probe, error) {
	var cases []NativeCase
	for _, s := range snips {
		cases = append(cases, NativeCase{ID: s.ID, Entry: "H_Probe", Params: map[string]interface{}{"src": s.Src, "ver": ver}})
	}
	res, err := c.R.Replay(cases, c.Workers)
	if err != nil {
		return nil, err
	}
	out := map[int]*Probe{}
	for _, s := range snips {
		r := res[s.ID]
		if r == nil || r.Outcome != "ok" {
			continue
		}
		p := &Probe{NErr: -1}
		for _, o := range r.Obs {
			switch o.Tag {
			case "nerr":
				p.NErr, _ = strconv.Atoi(o.Val)
			case "toks":
				txt, _ := strconv.Unquote(o.Val)
				for _, f := range strings.Split(txt, ";") {
					var t TokInfo
					var ff int
					if n, _ := fmt.Sscanf(f, "%d:%d:%d:%d", &t.ID, &t.Start, &t.End, &ff); n == 4 {
						t.FF = ff != 0
						p.Toks = append(p.Toks, t)
					}
				}
			}
		}
		sort.SliceStable(p.Toks, func(a, b int) bool {
			if p.Toks[a].Start != p.Toks[b].Start {
				return p.Toks[a].Start < p.Toks[b].Start
			}
			return p.Toks[a].End < p.Toks[b].End
		})
		out[s.ID] = p
	}
	return out, nil
}

// token ids the driver needs (pkg/token: iota + 57346 in declaration order; resolved
// from the current source so that a renumbering does not silently shift them).
type tokIDs struct {
	byName map[string]int
}

func readTokIDs() (*tokIDs, error) {
	b, err := os.ReadFile(filepath.Join(repoDir, "pkg/token/token.go"))
	if err != nil {
		return nil, err
	}
	t := &tokIDs{byName: map[string]int{}}
	next := -1
	for _, l := range strings.Split(string(b), "\n") {
		f := strings.Fields(l)
		if len(f) == 0 {
			continue
		}
		if len(f) >= 5 && f[1] == "ID" && f[2] == "=" && f[3] == "iota" {
			base, _ := strconv.Atoi(f[5])
			t.byName[f[0]] = base
			next = base + 1
			continue
		}
		if next > 0 && strings.HasPrefix(f[0], "T_") && len(f) == 1 {
			t.byName[f[0]] = next
			next++
		} else if next > 0 && f[0] == ")" {
			break
		}
	}
	if len(t.byName) < 100 {
		return nil, fmt.Errorf("could not read the token ids from pkg/token/token.go (%d found)", len(t.byName))
	}
	return t, nil
}

func (t *tokIDs) id(name string) int { return t.byName[name] }

// Gap: a place between two significant tokens where PHP allows trivia.
type Gap struct {
	From, To int // byte range of the existing trivia (may be empty)
	Prev     int // id of the significant token before (0: open tag)
	Next     int // id of the token after (-1: end of input)
	PrevLast byte
	Ctx      string // "halt-compiler-head": between __halt_compiler and its ';'
	// BeforeCloseTag: the token after the gap is a close tag ("?>" acting as ';')
	BeforeCloseTag bool
	// NextIsKeywordName: the T_STRING after the gap is spelled like a reserved word
	NextIsKeywordName bool
	afterArrow        bool // the token before the gap is "->"
}

func triviaGaps(src string, p *Probe, ids *tokIDs) []Gap {
	var gaps []Gap
	inStr := false
	inTick := false
	inDoc := false
	html := true
	lastEnd := 0
	prevID := 0
	prevPrevID := 0
	havePrev := false
	afterHalt := false
	haltHead := false
	add := func(to, next int) {
		if html || inStr || inTick || inDoc || afterHalt || !havePrev {
			return
		}
		if prevID == ids.id("T_END_HEREDOC") || prevID == ids.id("T_INLINE_HTML") {
			return
		}
		g := Gap{From: lastEnd, To: to, Prev: prevID, Next: next}
		if prevID == int(';') && prevPrevID == ids.id("T_END_HEREDOC") {
			// before PHP 7.3 a heredoc label is only recognised when "LABEL;" is followed
			// by a newline: only trivia that starts with a line terminator keeps the program
			if to == lastEnd {
				return
			}
			g.Ctx = "after-heredoc-label"
		}
		if haltHead {
			g.Ctx = "halt-compiler-head"
		}
		if prevID == int(';') && next == int(';') && to+1 < len(src) && src[to] == '?' && src[to+1] == '>' {
			// "; ?>" is one token for this lexer, "; /* c */ ?>" two
			g.Ctx = "semicolon-close-tag"
		}
		if lastEnd > 0 {
			g.PrevLast = src[lastEnd-1]
		}
		if next == int(';') && strings.HasPrefix(src[to:], "?>") && g.Ctx == "" {
			g.BeforeCloseTag = true
		}
		if next == ids.id("T_STRING") {
			// a name that is spelled like a reserved word (member names after -> and ::)
			e := to
			for e < len(src) && (src[e] == '_' || src[e] >= '0' && src[e] <= '9' || src[e] >= 'a' && src[e] <= 'z' || src[e] >= 'A' && src[e] <= 'Z') {
				e++
			}
			if _, kw := c03Keywords[strings.ToLower(src[to:e])]; kw {
				g.NextIsKeywordName = true
				g.afterArrow = prevID == ids.id("T_OBJECT_OPERATOR")
			}
		}
		gaps = append(gaps, g)
	}
	for _, t := range p.Toks {
		if t.FF {
			switch t.ID {
			case ids.id("T_OPEN_TAG"):
				html = false
				lastEnd = t.End
				// "<?php" needs the white-space byte that follows it
				if t.End-t.Start == 5 && t.End < len(src) && strings.IndexByte(" \t\r\n", src[t.End]) >= 0 {
					lastEnd = t.End + 1
					if src[t.End] == '\r' && t.End+1 < len(src) && src[t.End+1] == '\n' {
						lastEnd = t.End + 2
					}
				}
				prevID = 0
				havePrev = true
			case ids.id("T_HALT_COMPILER"):
				afterHalt = true
			}
			continue
		}
		if t.Start < lastEnd {
			continue
		}
		if t.ID != ids.id("T_INLINE_HTML") {
			add(t.Start, t.ID)
		}
		switch {
		case t.ID == ids.id("T_HALT_COMPILER"):
			haltHead = true
		case haltHead && t.ID == int(';'):
			haltHead = false
			afterHalt = true // what follows is data, not code
		case t.ID == ids.id("T_INLINE_HTML"):
			html = true
		case t.ID == int('"'):
			inStr = !inStr
		case t.ID == int('`'):
			inTick = !inTick
		case t.ID == ids.id("T_START_HEREDOC"):
			inDoc = true
		case t.ID == ids.id("T_END_HEREDOC"):
			inDoc = false
		case t.ID == ids.id("T_ECHO") && t.End-t.Start == 3 && strings.HasPrefix(src[t.Start:], "<?="):
			html = false
		case t.ID == int(';') && strings.HasPrefix(src[t.Start:t.End], "?>"):
			html = true
		case t.ID == int(';') && strings.Contains(src[t.Start:t.End], "?>"):
			html = true
		}
		lastEnd = t.End
		prevPrevID = prevID
		prevID = t.ID
		havePrev = true
	}
	add(len(src), -1)
	return gaps
}

// trivia alternatives for one gap (template segments).
func triviaAlternatives(g Gap, rich bool) [][]string {
	sp := ""
	if g.PrevLast == '/' || g.PrevLast == '*' || g.PrevLast == '<' {
		// "/" + "/*" or "/" + "//" would fuse into a different lexeme
		sp = " "
	}
	if g.Ctx == "after-heredoc-label" {
		return [][]string{
			{tC("\n"), tH('s', 0, 1)},
			{tC("\r\n"), tH('s', 0, 1)},
			{tC("\n"), tC("/*"), tH('c', 0, 1), tC("*/")},
		}
	}
	if g.NextIsKeywordName && g.afterArrow {
		// "$a-> list": PHP (and this lexer) read a reserved word as a member name only when
		// nothing but white space stands between "->" and the name; a comment there makes
		// the word a keyword again, in PHP too - not admissible trivia
		alts := [][]string{{tH('w', 1, 2)}}
		if rich {
			alts = append(alts, []string{tH('w', 3, 3)})
		}
		return alts
	}
	alts := [][]string{
		{tH('w', 1, 2)},
		{tC(sp + "/*"), tH('c', 0, 2), tC("*/")},
		{tC(sp + "#"), tH('c', 0, 1), tC("\n")},
		// a block comment holding any one byte: line terminators (LF, lone CR) inside a token
		{tC(sp + "/*"), tH('a', 1, 1), tC("*/")},
	}
	if g.BeforeCloseTag {
		// a one-line comment ended by the close tag that follows; its last byte may be
		// '?' or '>' ("// <b>?>", "# really??>")
		alts = append(alts,
			[]string{tC(sp + "//"), tH('k', 0, 1), tH('e', 1, 1)},
			[]string{tC(sp + "#"), tH('k', 0, 1), tH('e', 1, 1)})
	}
	if rich {
		alts = append(alts,
			[]string{tC(sp + "//"), tH('c', 0, 1), tC("\r\n")},
			[]string{tC(sp + "/**"), tH('w', 1, 1), tH('c', 0, 1), tC("*/"), tH('w', 0, 1)},
			[]string{tH('w', 0, 1), tC("/*"), tH('a', 1, 1), tC("*/"), tH('w', 0, 1)},
			[]string{tH('w', 3, 3)},
		)
	}
	return alts
}

type corpusView struct {
	snips []*Snip
	pr    map[int]*Probe
	ids   *tokIDs
}

var corpusCache = map[string]*corpusView{}

func (c *Check) corpusFor(ver string) ([]*Snip, map[int]*Probe, *tokIDs, error) {
	if v := corpusCache[ver]; v != nil {
		return v.snips, v.pr, v.ids, nil
	}
	snips, err := loadCorpus()
	if err != nil {
		return nil, nil, nil, err
	}
	ids, err := readTokIDs()
	if err != nil {
		return nil, nil, nil, err
	}
	pr, err := c.probeCorpus(snips, ver)
	if err != nil {
		return nil, nil, nil, err
	}
	corpusCache[ver] = &corpusView{snips, pr, ids}
	return snips, pr, ids, nil
}

// pickDiverse: which of the candidates (given by their context keys, in corpus order) a
// sampled tier uses. every <= 1: all. Otherwise the budget is len/every candidates, spent
// round-robin over the distinct keys: the first candidate of every key, then the second of
// every key, ... - so that a sample covers as many different token contexts as it can instead
// of every n-th place. Deterministic.
func pickDiverse(keys []string, every int) []bool {
	use := make([]bool, len(keys))
	if every <= 1 {
		for i := range use {
			use[i] = true
		}
		return use
	}
	budget := (len(keys) + every - 1) / every
	byKey := map[string][]int{}
	var order []string
	for i, k := range keys {
		if _, ok := byKey[k]; !ok {
			order = append(order, k)
		}
		byKey[k] = append(byKey[k], i)
	}
	for round := 0; budget > 0; round++ {
		any := false
		for _, k := range order {
			l := byKey[k]
			if round < len(l) {
				any = true
				// later rounds take candidates from the far end first: different programs
				idx := l[round]
				if round%2 == 1 {
					idx = l[len(l)-1-round/2]
					if use[idx] {
						idx = l[round]
					}
				}
				if !use[idx] {
					use[idx] = true
					budget--
					if budget == 0 {
						break
					}
				}
			}
		}
		if !any {
			break
		}
	}
	return use
}

func verParam(ver string) string { return ver }

// triviaJobs: S4 jobs for entry over the corpus under ver. every: use every n-th gap
// (rotating with the snippet index) - 1 = all gaps.
func (c *Check) triviaJobs(entry, ver string, every int, rich bool, fuel int64, cover string) ([]JobNeed, error) {
	snips, pr, ids, err := c.corpusFor(ver)
	if err != nil {
		return nil, err
	}
	var needs []JobNeed
	nsn, ngap := 0, 0
	type cand struct {
		s *Snip
		g Gap
	}
	var cands []cand
	var keys []string
	for _, s := range snips {
		p := pr[s.ID]
		if p == nil || p.NErr != 0 || s.Class == "pair" || s.Class == "double" || s.Class == "triple" || s.Class == "dirty" {
			continue
		}
		for _, g := range triviaGaps(s.Src, p, ids) {
			cands = append(cands, cand{s, g})
			keys = append(keys, fmt.Sprintf("%d/%d/%s/%v/%v", g.Prev, g.Next, g.Ctx, g.BeforeCloseTag, g.NextIsKeywordName))
		}
	}
	use := pickDiverse(keys, every)
	for ci, cd := range cands {
		// the few gaps in special contexts (halt-compiler head, after a heredoc label, before a
		// close tag) are always used
		if cd.g.Ctx != "" || cd.g.BeforeCloseTag || cd.g.NextIsKeywordName {
			use[ci] = true
		}
	}
	usedSnip := map[int]bool{}
	distinct := map[string]bool{}
	for ci, cd := range cands {
		if !use[ci] {
			continue
		}
		s, g := cd.s, cd.g
		usedSnip[s.ID] = true
		distinct[keys[ci]] = true
		ngap++
		alts := triviaAlternatives(g, rich)
		if c.TriviaEmpty && g.Ctx == "" {
			alts = append(alts, []string{tH('s', 0, 1)})
		}
		for _, alt := range alts {
			segs := []string{tC(s.Src[:g.From])}
			segs = append(segs, alt...)
			segs = append(segs, tC(s.Src[g.To:]))
			j := jobTmpl(entry, "S4 trivia", tmpl(segs...), ver, fuel)
			j.Params["base"] = s.Src
			j.Params["prev"] = g.Prev
			j.Params["next"] = g.Next
			j.Params["ctx"] = g.Ctx
			kind := "white space"
			for _, sg := range alt {
				if sg[0] == 'C' && strings.ContainsAny(sg[1:], "/#") {
					kind = "a comment"
				}
			}
			j.Params["trivia"] = kind
			var cv []string
			if cover != "" {
				cv = []string{cover}
			}
			needs = append(needs, JobNeed{Job: j, Cover: cv})
		}
	}
	nsn = len(usedSnip)
	c.Extra["trivia_gap_contexts_"+ver] = len(distinct)
	c.Extra["corpus_snippets_used_"+ver] = nsn
	c.Extra["trivia_gaps_"+ver] = ngap
	return needs, nil
}

// lexemeJobs: S5 - one byte of a name, variable, number, string body or inline HTML
// replaced by a symbolic byte of the same lexical class (names and strings include the
// bytes >= 0x80, string bodies and HTML include line terminators). every: use every
// n-th eligible token.
func (c *Check) lexemeJobs(entry, ver string, every int, fuel int64) ([]JobNeed, error) {
	snips, pr, ids, err := c.corpusFor(ver)
	if err != nil {
		return nil, err
	}
	var needs []JobNeed
	n := 0
	hole := func(s *Snip, at int, class byte) {
		if at < 0 || at >= len(s.Src) || !utf8.ValidString(s.Src[:at]) || !utf8.ValidString(s.Src[at+1:]) {
			return
		}
		j := jobTmpl(entry, "S5 lexeme", tmpl(tC(s.Src[:at]), tH(class, 1, 1), tC(s.Src[at+1:])), ver, fuel)
		j.Params["base"] = ""
		j.Params["prev"] = 0
		j.Params["next"] = 0
		j.Params["ctx"] = ""
		needs = append(needs, JobNeed{Job: j})
	}
	// esc: a backslash followed by an arbitrary byte (line terminators, quotes, '$' included)
	// inserted into a string body at this offset (-1: none)
	escHole := func(s *Snip, at int) {
		if at < 0 || at > len(s.Src) || !utf8.ValidString(s.Src[:at]) || !utf8.ValidString(s.Src[at:]) {
			return
		}
		j := jobTmpl(entry, "S5 lexeme", tmpl(tC(s.Src[:at]+"\\"), tH('a', 1, 1), tC(s.Src[at:])), ver, fuel)
		j.Params["base"] = ""
		j.Params["prev"] = 0
		j.Params["next"] = 0
		j.Params["ctx"] = ""
		needs = append(needs, JobNeed{Job: j})
	}
	type lcand struct {
		s           *Snip
		first, last int
		cf, cl      byte
		esc         int
	}
	var cands []lcand
	var keys []string
	for _, s := range snips {
		p := pr[s.ID]
		if p == nil || p.NErr != 0 || s.Class == "pair" || s.Class == "double" || s.Class == "triple" || s.Class == "dirty" {
			continue
		}
		prev := 0
		for _, t := range p.Toks {
			if t.FF || t.End <= t.Start {
				continue
			}
			pv := prev
			prev = t.ID
			var first, last int = -1, -1
			var cf, cl byte
			esc := -1
			switch t.ID {
			case ids.id("T_STRING"), ids.id("T_STRING_VARNAME"):
				first, cf = t.Start, 'I'
				if t.End-t.Start >= 2 {
					last, cl = t.End-1, 'j'
				}
			case ids.id("T_VARIABLE"):
				if t.End-t.Start >= 2 {
					first, cf = t.Start+1, 'I'
				}
				if t.End-t.Start >= 3 {
					last, cl = t.End-1, 'j'
				}
			case ids.id("T_LNUMBER"), ids.id("T_NUM_STRING"):
				last, cl = t.End-1, 'd'
			case ids.id("T_CONSTANT_ENCAPSED_STRING"):
				if t.End-t.Start >= 3 {
					first, cf = t.Start+1, 'q'
				}
				if t.End-t.Start >= 2 && (s.Src[t.Start] == '\'' || s.Src[t.Start] == '"') {
					esc = t.Start + 1
				}
			case ids.id("T_ENCAPSED_AND_WHITESPACE"):
				first, cf = t.Start, 'q'
				if pv == int('"') || pv == int('`') {
					esc = t.Start
				}
			case ids.id("T_INLINE_HTML"):
				first, cf = t.Start, 'h'
			default:
				continue
			}
			cands = append(cands, lcand{s, first, last, cf, cl, esc})
			key := fmt.Sprintf("%d/%d", pv, t.ID)
			if esc >= 0 {
				// single- and double-quoted strings are different scanner machines
				key += "/" + s.Src[t.Start:t.Start+1]
			}
			keys = append(keys, key)
		}
	}
	use := pickDiverse(keys, every)
	for ci, cd := range cands {
		if !use[ci] {
			continue
		}
		n++
		if cd.first >= 0 {
			hole(cd.s, cd.first, cd.cf)
		}
		if cd.last >= 0 {
			hole(cd.s, cd.last, cd.cl)
		}
		if cd.esc >= 0 {
			escHole(cd.s, cd.esc)
		}
	}
	c.Extra["lexeme_holes_"+ver] = n
	return needs, nil
}

// wholeJobs: every corpus snippet as a concrete input (one path each).
func (c *Check) wholeJobs(entry, ver string, fuel int64, onlyOK bool) ([]JobNeed, error) {
	snips, err := loadCorpus()
	if err != nil {
		return nil, err
	}
	var needs []JobNeed
	for _, s := range snips {
		if onlyOK && !s.okFor(ver) {
			continue
		}
		j := jobTmpl(entry, "corpus", tmpl(tC(s.Src)), ver, fuel)
		j.Params["base"] = s.Src
		j.Params["prev"] = 0
		j.Params["next"] = 0
		j.Params["ctx"] = ""
		needs = append(needs, JobNeed{Job: j})
	}
	return needs, nil
}

// windowJobs: S3 - one symbolic byte inserted / replaced / deleted. Candidates are all offsets
// of the eligible programs; a sampled tier picks them by context (the token at the offset,
// where in the token, and the token before), see pickDiverse.
func (c *Check) windowJobs(entry, ver string, every int, fuel int64, maxLen int, snippetsOnly bool) ([]JobNeed, error) {
	snips, pr, _, err := c.corpusFor(ver)
	if err != nil {
		return nil, err
	}
	var needs []JobNeed
	type wcand struct {
		s *Snip
		i int
	}
	var cands []wcand
	var keys []string
	for _, s := range snips {
		if len(s.Src) > maxLen || (snippetsOnly && s.Class != "") {
			continue
		}
		p := pr[s.ID]
		ti := 0
		prevID := 0
		for i := 0; i <= len(s.Src); i++ {
			// parameters travel as JSON: do not cut inside a multi-byte character
			if !utf8.ValidString(s.Src[:i]) || !utf8.ValidString(s.Src[i:]) || (i < len(s.Src) && !utf8.ValidString(s.Src[i+1:])) {
				continue
			}
			key := "?"
			if p != nil {
				for ti < len(p.Toks) && p.Toks[ti].End <= i && p.Toks[ti].End > p.Toks[ti].Start {
					prevID = p.Toks[ti].ID
					ti++
				}
				switch {
				case ti >= len(p.Toks) || i < p.Toks[ti].Start:
					key = fmt.Sprintf("after %d", prevID)
				case i == p.Toks[ti].Start:
					key = fmt.Sprintf("start %d after %d", p.Toks[ti].ID, prevID)
				case i == p.Toks[ti].End-1:
					key = fmt.Sprintf("last %d", p.Toks[ti].ID)
				case i == p.Toks[ti].Start+1:
					key = fmt.Sprintf("second %d", p.Toks[ti].ID)
				default:
					key = fmt.Sprintf("in %d", p.Toks[ti].ID)
				}
			}
			cands = append(cands, wcand{s, i})
			keys = append(keys, key)
		}
	}
	use := pickDiverse(keys, every)
	n := 0
	distinct := map[string]bool{}
	for ci, cd := range cands {
		if !use[ci] {
			continue
		}
		s, i := cd.s, cd.i
		n++
		distinct[keys[ci]] = true
		// insert one byte
		j := jobTmpl(entry, "S3 window", tmpl(tC(s.Src[:i]), tH('a', 1, 1), tC(s.Src[i:])), ver, fuel)
		j.Params["base"] = s.Src
		needs = append(needs, JobNeed{Job: j})
		if i < len(s.Src) {
			// replace one byte / delete one byte
			j = jobTmpl(entry, "S3 window", tmpl(tC(s.Src[:i]), tH('a', 0, 1), tC(s.Src[i+1:])), ver, fuel)
			j.Params["base"] = s.Src
			needs = append(needs, JobNeed{Job: j})
		}
	}
	c.Extra["window_positions_"+ver] = n
	c.Extra["window_contexts_"+ver] = len(distinct)
	return needs, nil
}

var _ = interp.OutOK
