package main

import (
	"sort"
	"strconv"
	"strings"

	"verif/engine/interp"
)

func init() {
	props["C12"] = &propImpl{files: []string{"h_lib.go", "h_kinds.go", "h_c12.go"}, run: runC12}
	props["C16"] = &propImpl{files: []string{"h_lib.go", "h_kinds.go", "h_c16.go"}, run: runC16}
	props["C15"] = &propImpl{files: []string{"h_lib.go", "h_kinds.go", "h_c15.go"}, run: runC15}
}

func kindJobs(c *Check, entry, cover string, extra map[string]interface{}) ([]JobNeed, error) {
	_, kinds, err := genWalkSource()
	if err != nil {
		return nil, err
	}
	var needs []JobNeed
	for k := range kinds {
		ps := map[string]interface{}{"kind": k}
		for a, b := range extra {
			ps[a] = b
		}
		needs = append(needs, JobNeed{Job: &interp.Job{Entry: entry, Tag: "kind", Params: ps}, Cover: []string{cover}})
	}
	c.Extra["node_kinds"] = len(kinds)
	return needs, nil
}

func runC12(c *Check) error {
	needs, err := kindJobs(c, "H_C12_Kind", "traversed", nil)
	if err != nil {
		return err
	}
	c.Bounds = append(c.Bounds,
		"every node kind of pkg/ast/node.go (read from the current source): every child slot present or absent (full product up to 6 child slots, otherwise all-present, all-absent, each single slot absent, each single slot present), lists of length 0 (nil and empty), 1, 2; the marker children are of four different leaf kinds (Identifier, ScalarLnumber, NamePart, ScalarMagicConstant)")
	c.Assumptions = append(c.Assumptions, stdAssumptions...)
	c.ExploreNeeds(needs, nil)
	nested, err := kindJobs(c, "H_C12_Nested", "nested", nil)
	if err != nil {
		return err
	}
	c.ExploreNeeds(nested, nil)
	c.Bounds = append(c.Bounds, "every node kind again with nodes of the same kind as children: two levels deep through one child position and one level through another, both positions symbolic (a visitor method re-entered while its own invocation is pending)")
	K0, K1, K2, vers := 3, 2, 2, "7.4,5.6"
	if c.Tier == "thorough" {
		K0, K1, K2, vers = 4, 3, 3, "7.4,5.6"
	}
	c.Bounds = append(c.Bounds, shortBounds(K0, K1, K2, vers)...)
	c.ExploreNeeds(shortShapes("H_C12_Parsed", K0, K1, K2, vers, 900_000), nil)
	return corpusShapes(c, "H_C12_Parsed", 0, false, 6_000_000)
}

// slotLexemes: which texts the parser of the current tree stores in which token slot
// (kind -> "Slot=a\x02b\x01Slot2=c"), learned natively from the corpus programs.
func (c *Check) slotLexemes() (map[string]string, int, error) {
	snips, err := loadCorpus()
	if err != nil {
		return nil, 0, err
	}
	var cases []NativeCase
	for _, ver := range []string{"7.4", "5.6"} {
		for _, s := range snips {
			if s.okFor(ver) {
				cases = append(cases, NativeCase{ID: len(cases), Entry: "H_C15_Lexemes", Params: map[string]interface{}{"src": s.Src, "ver": ver}})
			}
		}
	}
	res, err := c.R.Replay(cases, c.Workers)
	if err != nil {
		return nil, 0, err
	}
	sets := map[string]map[string]map[string]bool{}
	n := 0
	for _, r := range res {
		if r == nil || r.Outcome != "ok" {
			continue
		}
		for _, o := range r.Obs {
			if o.Tag != "lex" {
				continue
			}
			txt, _ := strconv.Unquote(o.Val)
			for _, e := range strings.Split(txt, "\x01") {
				eq := strings.IndexByte(e, '=')
				dot := strings.IndexByte(e, '.')
				if eq < 0 || dot < 0 || dot > eq {
					continue
				}
				kind, slot, lx := e[:dot], e[dot+1:eq], e[eq+1:]
				if sets[kind] == nil {
					sets[kind] = map[string]map[string]bool{}
				}
				if sets[kind][slot] == nil {
					sets[kind][slot] = map[string]bool{}
				}
				if !sets[kind][slot][lx] {
					sets[kind][slot][lx] = true
					n++
				}
			}
		}
	}
	out := map[string]string{}
	for kind, slots := range sets {
		var parts []string
		var names []string
		for sl := range slots {
			names = append(names, sl)
		}
		sort.Strings(names)
		for _, sl := range names {
			var lx []string
			for l := range slots[sl] {
				lx = append(lx, l)
			}
			sort.Strings(lx)
			parts = append(parts, sl+"="+strings.Join(lx, "\x02"))
		}
		out[kind] = strings.Join(parts, "\x01")
	}
	return out, n, nil
}

func runC15(c *Check) error {
	lex, nlex, err := c.slotLexemes()
	if err != nil {
		return err
	}
	_, kinds, err := genWalkSource()
	if err != nil {
		return err
	}
	var needs []JobNeed
	for k, kd := range kinds {
		needs = append(needs, JobNeed{Job: &interp.Job{Entry: "H_C15_Kind", Tag: "kind", Params: map[string]interface{}{"kind": k, "lex": lex[kd.Name]}}, Cover: []string{"printed"}})
	}
	c.Extra["node_kinds"] = len(kinds)
	c.Extra["slot_lexemes_learned"] = nlex
	c.Bounds = append(c.Bounds, "canonical lexemes: where exactly one token slot (or the separators of one list) is absent, the text printed in its place must be one the parser of this tree stores in that slot of that node kind (learned on this run from the corpus programs, case-insensitively; slots never seen with a token are reported as lexeme-unconstrained)")
	c.Bounds = append(c.Bounds,
		"every node kind of pkg/ast/node.go: every token and child slot present or absent (full product up to 6 such slots, otherwise all-present, all-absent, each single slot absent, each single slot present), lists of length 0..3 with separators none / len-1 / len / only the first of two")
	c.Assumptions = append(c.Assumptions, stdAssumptions...)
	c.ExploreNeeds(needs, nil)
	return nil
}

func runC16(c *Check) error {
	needs, err := kindJobs(c, "H_C16_Kind", "dumped", nil)
	if err != nil {
		return err
	}
	c.Bounds = append(c.Bounds,
		"every node kind of pkg/ast/node.go x the four WithTokens/WithPositions combinations: every child, token, value and position slot present or absent (full product up to 6 such slots, otherwise all-present, all-absent, each single slot absent, each single slot present), lists of length 0 (nil and empty), 1, 2",
		"values and token texts: printable ASCII on every slot configuration; with invalid UTF-8, a quote/backslash/two-byte rune, a byte order mark and control characters appended on the all-present configuration; a literal that strconv.Unquote rejects or that contains a raw byte order mark is not valid Go",
		"the dump is read back by a line-level reader for the dumper's layout (one literal per node, fields 'Key: value,'); the native replay runs the same reader")
	c.Assumptions = append(c.Assumptions, stdAssumptions...)
	c.ExploreNeeds(needs, nil)
	return nil
}
