package main

func init() {
	props["C17"] = &propImpl{files: []string{"h_lib.go", "h_c17.go"}, run: runC17}
}

func runC17(c *Check) error {
	c.Assumptions = append(c.Assumptions, stdAssumptions...)
	every := tierEvery(c, 6, 3)
	for _, ver := range []string{"7.4", "5.6"} {
		needs, err := c.wholeJobs("H_C17", ver, 6_000_000, true)
		if err != nil {
			return err
		}
		c.ExploreNeeds(needs, nil)
		needs, err = c.triviaJobs("H_C17", ver, every, false, 6_000_000, "")
		if err != nil {
			return err
		}
		c.ExploreNeeds(needs, nil)
		needs, err = c.lexemeJobs("H_C17", ver, tierEvery(c, 4, 2), 6_000_000)
		if err != nil {
			return err
		}
		c.ExploreNeeds(needs, nil)
	}
	c.Bounds = append(c.Bounds, bound("S5: one byte of every %d-th name, variable, integer, string body and inline-HTML token symbolic within its lexical class (names incl. bytes >= 0x80)", tierEvery(c, 4, 2)))
	c.Bounds = append(c.Bounds,
		"program shapes: the committed corpus under 7.4 and 5.6, as written and with symbolic trivia in every "+bound("%d", every)+"-th inter-token gap (one gap at a time)",
		"per path: parse, format (formatter.NewFormatter()), print, parse again, format and print again; canonicity = the formatted text equals the formatted text of the unmodified snippet")
	return nil
}
