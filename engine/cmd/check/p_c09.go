package main

import "verif/engine/interp"

func init() {
	props["C09"] = &propImpl{files: []string{"h_lib.go", "h_c09.go"}, run: runC09}
}

func runC09(c *Check) error {
	K, KR, KH, NV := 2, 1, 2, 5
	if c.Tier == "thorough" {
		K, KR, KH, NV = 3, 2, 3, 6
	}
	c.Bounds = append(c.Bounds,
		"Validate, Parse's version dispatch, Compare/Less/LessOrEqual/Greater/GreaterOrEqual/InRange: all 64-bit (major, minor) values, no bound",
		bound("version.New: every byte string of length 0..%d", NV),
		bound("nil version == 7.4: \"<?php \"/\"<?\" + every byte string of length 0..%d; class equivalence: the same prefixes + 0..%d bytes; both: heredoc prefixes + 0..%d bytes, other version-sensitive prefixes + 0..2 bytes; the second version is fully symbolic within its class", K, KR, KH))
	c.Assumptions = append(c.Assumptions, stdAssumptions...)
	var proof []*interp.Job
	need := func(j *interp.Job, cov ...string) {
		c.ExploreNeed(j, cov...)
		proof = append(proof, j)
	}
	need(&interp.Job{Entry: "H_C09_Validate", Tag: "validate", Params: map[string]interface{}{}}, "validated")
	for _, src := range []string{"<?php 1;", "", "<?php <<<A\n  x\n  A;\n"} {
		need(&interp.Job{Entry: "H_C09_Parse", Tag: "dispatch", Params: map[string]interface{}{"src": src}}, "accepted", "rejected")
	}
	need(&interp.Job{Entry: "H_C09_Compare", Tag: "compare", Params: map[string]interface{}{}}, "compared")
	need(&interp.Job{Entry: "H_C09_Trans", Tag: "compare", Params: map[string]interface{}{}}, "chain")
	c.CrossSolvers(proof)
	for n := 0; n <= NV; n++ {
		cov := []string{"new-err"}
		if n >= 3 {
			cov = append(cov, "new-ok")
		}
		c.ExploreNeed(&interp.Job{Entry: "H_C09_New", Tag: "new", Params: map[string]interface{}{"n": n}}, cov...)
	}
	fuel := int64(900_000)
	for _, p := range []string{"<?php ", "<?"} {
		c.ExploreNeed(jobTmpl("H_C09_Default", "default", tmpl(tC(p), tH('a', 0, K)), "", fuel), "default")
		c.ExploreNeed(jobTmpl("H_C09_Rel", "class-equivalence", tmpl(tC(p), tH('a', 0, KR)), "", fuel), "rel")
	}
	for i, p := range []string{"<?php <<<A\n", "<?php <<<A\n a\n ", "<?php <<<'A'\n", "<?php \"$a[", "<?php fn", "<?php 1_"} {
		kh := KH
		if i >= 3 && kh > 2 {
			kh = 2 // PHP-mode prefixes: ~30 behaviours per byte, two versions on every path
		}
		c.ExploreNeed(jobTmpl("H_C09_Default", "default", tmpl(tC(p), tH('a', 0, kh)), "", fuel), "default")
		c.ExploreNeed(jobTmpl("H_C09_Rel", "class-equivalence", tmpl(tC(p), tH('a', 0, kh)), "", fuel), "rel")
	}
	return nil
}
