package main

// C14: program templates for the name-resolution differential (harness/h_c14.go).
// A program = namespace form x import declarations x one statement that declares or
// references a name x the form of that name. The alias introduced by an import and the
// first segment of the referenced name are symbolic two-letter identifiers
// ([Zz][A-Za-z]), so whether the reference hits the alias exactly, only up to letter
// case, or not at all is decided by the solver on every template.

import (
	"strings"
)

func init() {
	props["C14"] = &propImpl{files: []string{"h_lib.go", "h_c14.go"}, run: runC14}
}

// segs is a template under construction: literal text with symbolic identifiers.
type segs []string

func lit(s string) segs { return segs{tC(s)} }

// symID: a two-byte identifier [Zz][A-Za-z] (no keyword starts with z).
func symID() segs { return segs{tH('z', 1, 1), tH('l', 1, 1)} }

func cat(parts ...interface{}) segs {
	var out segs
	for _, p := range parts {
		switch p := p.(type) {
		case string:
			if p != "" {
				out = append(out, tC(p))
			}
		case segs:
			out = append(out, p...)
		}
	}
	// merge adjacent literals
	var m segs
	for _, s := range out {
		if len(m) > 0 && s[0] == 'C' && m[len(m)-1][0] == 'C' {
			m[len(m)-1] += s[1:]
			continue
		}
		m = append(m, s)
	}
	return m
}

type c14Import struct {
	name string
	text segs
	php5 bool // also valid PHP 5.6
}

type c14Pos struct {
	name    string
	pre     string // text before the name
	post    string // text after the name
	kind    string // class | func | const | type | rtype
	php5    bool
	special []string // special names that are valid PHP at this position
}

type c14Form struct {
	name string
	f    func(x segs) segs
}

func c14Imports() []c14Import {
	X := symID
	return []c14Import{
		{"none", nil, true},
		{"use A\\B as X", cat("use A\\B as ", X(), "; "), true},
		{"use A\\X", cat("use A\\", X(), "; "), true},
		{"use function A\\b as X", cat("use function A\\b as ", X(), "; "), true},
		{"use function A\\X", cat("use function A\\", X(), "; "), true},
		{"use const A\\B as X", cat("use const A\\B as ", X(), "; "), true},
		{"use const A\\X", cat("use const A\\", X(), "; "), true},
		{"use A\\{B as X}", cat("use A\\{B as ", X(), "}; "), false},
		{"use A\\{C, X}", cat("use A\\{C, ", X(), "}; "), false},
		{"use A\\B\\{C\\X}", cat("use A\\B\\{C\\", X(), "}; "), false},
		{"use function A\\{X}", cat("use function A\\{", X(), "}; "), false},
		{"use const A\\{B as X}", cat("use const A\\{B as ", X(), "}; "), false},
		{"use A\\{function X, const C}", cat("use A\\{function ", X(), ", const C}; "), false},
		{"use A\\{const X, function d}", cat("use A\\{const ", X(), ", function d}; "), false},
		{"use \\A\\B as X", cat("use \\A\\B as ", X(), "; "), true},
		{"use \\A\\{X}", cat("use \\A\\{", X(), "}; "), false},
		{"use C\\D, A\\B as X", cat("use C\\D, A\\B as ", X(), "; "), true},
		{"use FUNCTION A\\X (any case)", cat("use ", segs{"Kfunction"}, " A\\", X(), "; "), true},
		{"use CONST A\\X (any case)", cat("use ", segs{"Kconst"}, " A\\", X(), "; "), true},
		{"use A\\B as X; use function C\\d as X'", cat("use A\\B as ", X(), "; use function C\\d as ", X(), "; "), true},
		{"use const A\\B as X; use C\\D as X'", cat("use const A\\B as ", X(), "; use C\\D as ", X(), "; "), true},
		{"use function A\\b as X; use const C\\D as X'", cat("use function A\\b as ", X(), "; use const C\\D as ", X(), "; "), true},
	}
}

var (
	spType  = []string{"int", "float", "bool", "string", "iterable", "object", "self", "parent", "array", "callable"}
	spRType = []string{"int", "float", "bool", "string", "iterable", "object", "self", "parent", "array", "callable", "void"}
	spClass = []string{"self", "parent", "static"}
	spConst = []string{"true", "false", "null"}
)

func c14Positions() []c14Pos {
	return []c14Pos{
		{"new", "new ", ";", "class", true, spClass},
		{"new with arguments", "$a = new ", "(1);", "class", true, spClass},
		{"static call", "", "::f();", "class", true, spClass},
		{"static property", "echo ", "::$p;", "class", true, spClass},
		{"class constant", "echo ", "::C;", "class", true, spClass},
		{"instanceof", "$x instanceof ", ";", "class", true, spClass},
		{"extends", "class C extends ", " {}", "class", true, nil},
		{"implements", "class C implements I, ", " {}", "class", true, nil},
		{"interface extends", "interface J extends I, ", " {}", "class", true, nil},
		{"catch", "try {} catch (", " $e) {}", "class", true, nil},
		{"multi catch", "try {} catch (E | ", " $e) {}", "class", false, nil},
		{"parameter type", "function f(", " $a) {}", "type", true, spType},
		{"nullable parameter type", "function f($a, ?", " $b) {}", "type", false, spType},
		{"return type", "function f(): ", " {}", "rtype", false, spRType},
		{"nullable return type", "function f(): ?", " {}", "rtype", false, spType},
		{"property type", "class C { public ", " $p; }", "type", false, spType},
		{"nullable property type", "class C { private static ?", " $p; }", "type", false, spType},
		{"method parameter type", "class C { function m(", " $a) {} }", "type", true, spType},
		{"method return type", "class C { function m(): ", " {} }", "rtype", false, spRType},
		{"interface method parameter type", "interface J { function m(", " $a); }", "type", true, spType},
		{"closure parameter type", "$f = function(", " $a) {};", "type", true, spType},
		{"closure return type", "$f = function() use ($b): ", " {};", "rtype", false, spRType},
		{"arrow function parameter type", "$f = fn(", " $a) => 1;", "type", false, spType},
		{"arrow function return type", "$f = fn(): ", " => 1;", "rtype", false, spRType},
		{"trait use", "class C { use ", "; }", "class", true, nil},
		{"trait use list", "class C { use T, ", " { } }", "class", true, nil},
		{"trait precedence", "class C { use T, U { ", "::f insteadof T; } }", "class", true, nil},
		{"trait insteadof", "class C { use T, U { T::f insteadof U, ", "; } }", "class", true, nil},
		{"trait alias", "class C { use T { ", "::g as protected h; } }", "class", true, nil},
		{"anonymous class extends", "new class extends ", " {};", "class", false, nil},
		{"anonymous class implements", "new class(1) implements ", " {};", "class", false, nil},
		{"new inside a function body", "function g() { return new ", "; }", "class", true, spClass},
		{"static call inside if", "if ($a) { ", "::f(); }", "class", true, spClass},
		{"new on the right of ??=", "$a ??= new ", ";", "class", false, nil},
		{"instanceof inside a ternary", "$a = $b ? $c instanceof ", " : 1;", "class", true, nil},
		{"function call", "", "();", "func", true, nil},
		{"function call with arguments", "$a = ", "(1, $b);", "func", true, nil},
		{"function call as argument", "f(", "());", "func", true, nil},
		{"constant fetch", "echo ", ";", "const", true, spConst},
		{"constant fetch in an assignment", "$a = ", ";", "const", true, spConst},
		{"constant fetch as parameter default", "function f($a = ", ") {}", "const", true, spConst},
		{"constant fetch in a constant declaration", "const K = ", ";", "const", true, spConst},
		{"constant fetch as array key", "$a = [", " => 1];", "const", true, spConst},
		// references that are reached only through a particular child slot of another node
		{"new as anonymous-class constructor argument", "new class(new ", ") {};", "class", false, spClass},
		{"class constant as anonymous-class constructor argument", "new class(1, ", "::C) extends B {};", "class", false, spClass},
		{"function call as anonymous-class constructor argument", "$o = new class(", "()) {};", "func", false, nil},
		{"constant fetch as anonymous-class constructor argument", "$o = new class(", ") {};", "const", false, spConst},
		{"new inside a closure body", "$f = function() { return new ", "; };", "class", true, spClass},
		{"new inside an arrow function body", "$f = fn() => new ", ";", "class", false, spClass},
		{"static call as method-call argument", "$o->m(1, ", "::f());", "class", true, spClass},
		{"new as static-call argument", "A::m(new ", ");", "class", true, spClass},
		{"constant fetch as array value", "$a = [1 => ", "];", "const", true, spConst},
		{"constant fetch as list key", "list(", " => $a) = $b;", "const", false, spConst},
		{"function call in a foreach subject", "foreach (", "() as $k => $v) {}", "func", true, nil},
		{"new in a switch case", "switch ($a) { case 1: new ", "; }", "class", true, spClass},
		{"instanceof in a while condition", "while ($x instanceof ", ") {}", "class", true, spClass},
		{"class constant as property default", "class C { public $p = ", "::K; }", "class", true, spClass},
		{"class constant as class-constant value", "class C { const K = ", "::K; }", "class", true, spClass},
		{"constant fetch as static-variable default", "function f() { static $s = ", "; }", "const", true, spConst},
		{"new in a finally block", "try {} finally { new ", "; }", "class", true, spClass},
		{"function call in a do-while condition", "do {} while (", "());", "func", true, nil},
		{"new in the third for expression", "for (;; new ", ") {}", "class", true, spClass},
		{"static call in a declare block", "declare(ticks=1) { ", "::f(); }", "class", true, spClass},
		{"new in an echo list", "echo 1, new ", ";", "class", true, spClass},
		{"new as yield value", "function g() { yield 1 => new ", "; }", "class", true, spClass},
		{"class constant in a ternary branch", "$a = $b ? 1 : ", "::C;", "class", true, spClass},
		{"constant fetch right of ??", "$a = $b ?? ", ";", "const", false, spConst},
		{"new as array item by reference holder", "$a = array(1, new ", ");", "class", true, spClass},
		{"static property in isset", "isset(", "::$p);", "class", true, spClass},
		{"static call in a return", "function g() { return ", "::f(); }", "class", true, spClass},
		{"new in a throw", "throw new ", ";", "class", true, spClass},
		{"static call as closure use-less body statement", "$f = function() { ", "::f(); };", "class", true, spClass},
		{"parameter type of a closure inside a call", "f(function(", " $a) {});", "type", true, spType},
		{"return type of an interface method", "interface J { function m(): ", "; }", "rtype", false, spRType},
		{"parameter type of an abstract method", "abstract class C { abstract function m(", " $a); }", "type", true, spType},
		{"catch inside a method", "class C { function m() { try {} catch (", " $e) {} } }", "class", true, nil},
	}
}

func c14Forms() []c14Form {
	return []c14Form{
		{"X", func(x segs) segs { return x }},
		{"X\\Q", func(x segs) segs { return cat(x, "\\Q") }},
		{"X\\Q\\r", func(x segs) segs { return cat(x, "\\Q\\r") }},
		{"\\X", func(x segs) segs { return cat("\\", x) }},
		{"\\X\\Q", func(x segs) segs { return cat("\\", x, "\\Q") }},
		{"namespace\\X", func(x segs) segs { return cat("namespace\\", x) }},
		{"namespace\\X\\Q", func(x segs) segs { return cat("namespace\\", x, "\\Q") }},
	}
}

type c14NS struct {
	name string
	f    func(imports, stmt segs) segs
}

func c14Namespaces() []c14NS {
	return []c14NS{
		{"global code", func(i, s segs) segs { return cat("<?php ", i, s) }},
		{"namespace N;", func(i, s segs) segs { return cat("<?php namespace N; ", i, s) }},
		{"namespace N\\M { }", func(i, s segs) segs { return cat("<?php namespace N\\M { ", i, s, " }") }},
		{"namespace { }", func(i, s segs) segs { return cat("<?php namespace { ", i, s, " }") }},
		{"imports in an earlier namespace M; then namespace N;", func(i, s segs) segs { return cat("<?php namespace M; ", i, "namespace N; ", s) }},
		{"imports in namespace M { } then namespace N { }", func(i, s segs) segs { return cat("<?php namespace M { ", i, "} namespace N { ", s, " }") }},
		{"imports in namespace N { } then namespace { }", func(i, s segs) segs { return cat("<?php namespace N { ", i, "} namespace { ", s, " }") }},
		{"namespace M; then namespace N; with the imports", func(i, s segs) segs { return cat("<?php namespace M; use A\\B as Zq; namespace N; ", i, s) }},
	}
}

func c14Decls() []c14Pos {
	return []c14Pos{
		{"class", "class ", " {}", "decl", true, nil},
		{"abstract class", "abstract class ", " extends B {}", "decl", true, nil},
		{"final class", "final class ", " implements I {}", "decl", true, nil},
		{"interface", "interface ", " {}", "decl", true, nil},
		{"trait", "trait ", " {}", "decl", true, nil},
		{"function", "function ", "() {}", "decl", true, nil},
		{"function returning a reference", "function &", "($a) {}", "decl", true, nil},
		{"const", "const ", " = 1;", "decl", true, nil},
		{"second const of a list", "const K = 1, ", " = 2;", "decl", true, nil},
		{"function declared inside if", "if ($a) { function ", "() {} }", "decl", true, nil},
		{"class declared inside a function", "function g() { class ", " {} }", "decl", true, nil},
	}
}

// resolverShapes: namespace/import programs (every import x every namespace form x
// three reference kinds) for entry - used by C11 and C13 to exercise the resolver.
func resolverShapes(entry, ver string, fuel int64) []JobNeed {
	var out []JobNeed
	stmts := []segs{
		cat("new ", symID(), "\\Q;"),
		cat(symID(), "();"),
		cat("echo ", symID(), ";"),
	}
	for _, im := range c14Imports() {
		for ni, ns := range c14Namespaces() {
			t := ns.f(im.text, stmts[ni%len(stmts)])
			out = append(out, JobNeed{Job: jobTmpl(entry, "resolver programs", tmpl(t...), ver, fuel)})
		}
	}
	return out
}

const resolverBound = "resolver programs: 22 import declarations x 8 namespace forms with one reference (new / call / constant fetch) whose first segment and the import's alias are symbolic identifiers"

func runC14(c *Check) error {
	c.Assumptions = append(c.Assumptions, stdAssumptions...)
	c.Assumptions = append(c.Assumptions,
		"reference = the rules of the PHP manual (namespaces: name resolution rules, importing) as written down in harness/h_c14.go; function and constant fall-back to the global namespace happens at run time in PHP and is not part of compile-time resolution (the property says 'otherwise the current namespace prefix')",
		"programs in which two imports of one kind introduce the same alias are not valid PHP and are discarded")
	imports, positions, forms, nss, decls := c14Imports(), c14Positions(), c14Forms(), c14Namespaces(), c14Decls()
	thorough := c.Tier == "thorough"
	fuel := int64(3_000_000)
	var needs []JobNeed
	n7, n5 := 0, 0
	add := func(ver, tag string, t segs, covers ...string) {
		j := jobTmpl("H_C14", tag, tmpl(t...), ver, fuel)
		needs = append(needs, JobNeed{Job: j, Cover: covers})
		if ver == "7.4" {
			n7++
		} else {
			n5++
		}
	}
	// (1) core matrix: every import x every name form x one position of each kind x
	//     every namespace form
	core := []int{}
	for i, p := range positions {
		if p.name == "new" || p.name == "function call" || p.name == "constant fetch" || (thorough && (p.name == "parameter type" || p.name == "static call" || p.name == "trait use")) {
			core = append(core, i)
		}
	}
	for _, pi := range core {
		p := positions[pi]
		for _, f := range forms {
			for _, im := range imports {
				for _, ns := range nss {
					t := ns.f(im.text, cat(p.pre, f.f(symID()), p.post))
					add("7.4", "core matrix", t, "resolved")
					if im.php5 && p.php5 {
						add("5.6", "core matrix (PHP 5)", t, "resolved")
					}
				}
			}
		}
	}
	// (2) every position x every name form; imports and namespace forms rotate in the
	//     quick tier, full product in the thorough tier
	r := 0
	for _, p := range positions {
		for _, f := range forms {
			r++
			for ii, im := range imports {
				for ni, ns := range nss {
					if !thorough {
						// four (import, namespace) combinations per (position, form)
						hit := false
						for j := 0; j < 4; j++ {
							if ii == (r*5+j*7)%len(imports) && ni == (r+j*3)%len(nss) {
								hit = true
							}
						}
						if !hit {
							continue
						}
					}
					t := ns.f(im.text, cat(p.pre, f.f(symID()), p.post))
					add("7.4", "positions", t, "resolved")
					if thorough && im.php5 && p.php5 && (ii+ni)%4 == 0 {
						add("5.6", "positions (PHP 5)", t, "resolved")
					}
				}
			}
		}
	}
	// (3) special names in every letter case at the positions where PHP allows them
	for pi, p := range positions {
		for si, sp := range p.special {
			for ni, ns := range nss {
				if !thorough && (pi+si+ni)%3 != 0 {
					continue
				}
				im := imports[(pi+si+ni)%3] // none / class alias / last-segment alias
				t := ns.f(im.text, cat(p.pre, segs{"K" + sp}, p.post))
				add("7.4", "special names", t, "ran")
			}
		}
	}
	// (4) declarations
	for _, d := range decls {
		for _, ns := range nss {
			t := ns.f(nil, cat(d.pre, symID(), d.post))
			add("7.4", "declarations", t, "resolved")
			add("5.6", "declarations (PHP 5)", t, "resolved")
		}
	}
	c.ExploreNeeds(needs, nil)
	c.Extra["templates_php7"] = n7
	c.Extra["templates_php5"] = n5
	var inames, pnames []string
	for _, im := range imports {
		inames = append(inames, im.name)
	}
	for _, p := range positions {
		pnames = append(pnames, p.name)
	}
	c.Extra["import_forms"] = inames
	c.Extra["reference_positions"] = pnames
	sel := "every (position, name form) with 4 rotating (import, namespace form) combinations"
	if thorough {
		sel = "the full product position x name form x import x namespace form"
	}
	c.Bounds = append(c.Bounds,
		bound("programs: %d namespace forms x %d import declarations (0-2 imports, group and mixed-group forms, leading backslash, keyword case) x %d reference positions x %d name forms (unqualified, qualified, fully qualified, namespace-relative; <= 3 segments) + %d declaration forms; one referenced or declared name per program", len(nss), len(imports), len(positions), len(forms), len(decls)),
		"core matrix (new / function call / constant fetch): the full product; "+sel,
		"the alias of every import and the first segment of the referenced name are symbolic identifiers [Zz][A-Za-z] (all 104 x 104 combinations per template, incl. equal, equal up to case, different); special names with every letter in either case",
		"versions 7.4 and (for PHP 5 syntax) 5.6")
	_ = strings.Join
	return nil
}
