package main

func init() {
	props["C02"] = &propImpl{files: []string{"h_lib.go", "h_pipe.go"}, run: runC02}
	props["C04"] = &propImpl{files: []string{"h_lib.go", "h_pipe.go", "h_units.go", "h_step.go"}, run: runC04,
		fallbackFiles: []string{"h_lib.go", "h_pipe.go"}, hooks: []string{"internal/scanner", "internal/position", "pkg/token", "pkg/position"}, fallbackRun: runC04}
	props["C06"] = &propImpl{files: []string{"h_lib.go", "h_pipe.go"}, run: runC06}
}

func pipeTier(c *Check) (K0, K1, K2 int, vers string) {
	K0, K1, K2, vers = 3, 2, 2, "7.4,5.6"
	if c.Tier == "thorough" {
		K0, K1, K2, vers = 4, 3, 3, "7.4,7.2,5.6"
	}
	return
}

// corpusShapes: every corpus program (test snippets + grammar sentences) as written
// and, for the programs the baseline accepts, with symbolic trivia in every n-th gap.
func corpusShapes(c *Check, entry string, every int, onlyOK bool, fuel int64) error {
	return corpusShapesLex(c, entry, every, 0, onlyOK, fuel)
}

// corpusShapesLex: as corpusShapes, plus S5 lexeme holes in every lex-th eligible token.
func corpusShapesLex(c *Check, entry string, every, lex int, onlyOK bool, fuel int64) error {
	rich := c.Tier == "thorough"
	for _, ver := range []string{"7.4", "5.6"} {
		if lex > 0 {
			needs, err := c.lexemeJobs(entry, ver, lex, fuel)
			if err != nil {
				return err
			}
			c.ExploreNeeds(needs, nil)
		}
		needs, err := c.wholeJobs(entry, ver, fuel, onlyOK)
		if err != nil {
			return err
		}
		c.ExploreNeeds(needs, nil)
		if every > 0 {
			needs, err = c.triviaJobs(entry, ver, every, rich, fuel, "")
			if err != nil {
				return err
			}
			c.ExploreNeeds(needs, nil)
		}
	}
	c.ExploreNeeds(longShapes(entry, fuel), nil)
	c.Bounds = append(c.Bounds, corpusBound(every, rich), longBound)
	if lex > 0 {
		c.Bounds = append(c.Bounds, bound("S5: in every %d-th name, variable, integer, string body and inline-HTML token of these programs one byte is replaced by a symbolic byte of the same lexical class (first/later byte of a name incl. bytes >= 0x80; digit; any string-body byte that starts nothing special incl. line terminators; any HTML byte except '<'), and a backslash followed by an arbitrary byte is inserted at the start of quoted string bodies", lex))
	}
	return nil
}

func corpusBound(every int, rich bool) string {
	s := "program shapes: the committed corpus (snippets of the repository's own tests + one sentence per production, per subset of optional right-hand-side symbols and per parent/child production pair of php5.y and php7.y) under 7.4 and 5.6, as written"
	if every > 0 {
		s += bound("; test snippets and production/optional sentences additionally with symbolic trivia in every %d-th inter-token gap (white space 1..2 bytes of every newline style, /*..*/, #..\\n%s; for C02/C04/C05 also the gap emptied or reduced to one blank), one gap at a time", every, map[bool]string{true: ", //..\\r\\n, /** */, 3-byte white space", false: ""}[rich])
	}
	return s
}

func runC02(c *Check) error {
	K0, K1, K2, vers := pipeTier(c)
	c.Bounds = append(c.Bounds, shortBounds(K0, K1, K2, vers)...)
	c.Assumptions = append(c.Assumptions, stdAssumptions...)
	c.ExploreNeeds(shortShapes("H_C02", K0, K1, K2, vers, 900_000), nil)
	c.TriviaEmpty = true
	return corpusShapesLex(c, "H_C02", tierEvery(c, 6, 3), tierEvery(c, 4, 2), true, 3_000_000)
}

func runC04(c *Check) error {
	K0, K1, K2, vers := pipeTier(c)
	c.Bounds = append(c.Bounds, shortBounds(K0, K1, K2, vers)...)
	c.Assumptions = append(c.Assumptions, stdAssumptions...)
	unitJobsC04(c)
	if c.Tier == "thorough" {
		// the S7 shapes run in C01's quick tier with the same assertions (token text == source
		// slice at its offsets is asserted there too); C04 repeats them in its thorough tier
		stepJobs(c)
	}
	c.ExploreNeeds(shortShapes("H_C04", K0, K1, K2, vers, 900_000), nil)
	c.TriviaEmpty = true
	return corpusShapesLex(c, "H_C04", tierEvery(c, 6, 3), tierEvery(c, 4, 2), false, 3_000_000)
}

func runC06(c *Check) error {
	K0, K1, K2, vers := pipeTier(c)
	c.Bounds = append(c.Bounds, shortBounds(K0, K1, K2, vers)...)
	c.Assumptions = append(c.Assumptions, stdAssumptions...)
	c.ExploreNeeds(shortShapes("H_C06", K0, K1, K2, vers, 1_500_000), nil)
	return corpusShapes(c, "H_C06", 0, false, 6_000_000)
}
