package main

func init() {
	props["C02"] = &propImpl{files: []string{"h_lib.go", "h_pipe.go"}, run: runC02}
	props["C04"] = &propImpl{files: []string{"h_lib.go", "h_pipe.go"}, run: runC04}
	props["C06"] = &propImpl{files: []string{"h_lib.go", "h_pipe.go"}, run: runC06}
}

func pipeTier(c *Check) (K0, K1, K2 int, vers string) {
	K0, K1, K2, vers = 3, 2, 2, "7.4,5.6"
	if c.Tier == "thorough" {
		K0, K1, K2, vers = 5, 3, 4, "7.4,7.2,5.6"
	}
	return
}

func runC02(c *Check) error {
	K0, K1, K2, vers := pipeTier(c)
	c.Bounds = append(c.Bounds, shortBounds(K0, K1, K2, vers)...)
	c.Assumptions = append(c.Assumptions, stdAssumptions...)
	c.ExploreNeeds(shortShapes("H_C02", K0, K1, K2, vers, 900_000), nil)
	return nil
}

func runC04(c *Check) error {
	K0, K1, K2, vers := pipeTier(c)
	c.Bounds = append(c.Bounds, shortBounds(K0, K1, K2, vers)...)
	c.Assumptions = append(c.Assumptions, stdAssumptions...)
	c.ExploreNeeds(shortShapes("H_C04", K0, K1, K2, vers, 900_000), nil)
	return nil
}

func runC06(c *Check) error {
	K0, K1, K2, vers := pipeTier(c)
	c.Bounds = append(c.Bounds, shortBounds(K0, K1, K2, vers)...)
	c.Assumptions = append(c.Assumptions, stdAssumptions...)
	c.ExploreNeeds(shortShapes("H_C06", K0, K1, K2, vers, 1_500_000), nil)
	return nil
}
