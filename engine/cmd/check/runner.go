package main

import (
	"bufio"
	"bytes"
	"encoding/json"
	"fmt"
	"os"
	"os/exec"
	"path/filepath"
	"sort"
	"strings"
	"sync"
	"time"

	"verif/engine/interp"
)

// repoDir is /repo for every registered command. VERIF_REPO / VERIF_OUT are development
// overrides used by tools/seedtest.sh only: they point the check at a scratch worktree with a
// seeded change applied and send evidence, replays and work files to a scratch directory, so
// that seeded changes never touch /repo and never overwrite committed evidence.
var (
	repoDir  = envOr("VERIF_REPO", "/repo")
	verifDir = envOr("VERIF_DIR", "/verif")
	outDir   = envOr("VERIF_OUT", "/verif")
)

func envOr(k, d string) string {
	if v := os.Getenv(k); v != "" {
		return v
	}
	return d
}

// Runner loads the harness into the engine and builds the native replayer.
type Runner struct {
	Eng        *interp.Engine
	Files      map[string]string // virtual path under /repo -> real path
	WorkDir    string
	ReplayBin  string
	LoadSecs   float64
	BuildSecs  float64
	extraFiles map[string][]byte // generated sources (virtual path -> content)
}

// harnessFiles returns the overlay: every /verif/harness/*.go as /repo/zz_verif_<name>,
// plus package-internal hook files /verif/harness/pkg/<dir...>/<name>.go as
// /repo/<dir...>/zz_verif_<name>.go, plus generated files.
func collectOverlay(generated map[string][]byte, only []string, hooks []string) (map[string]string, map[string][]byte, error) {
	virt := map[string]string{}
	content := map[string][]byte{}
	hdir := filepath.Join(verifDir, "harness")
	ents, err := os.ReadDir(hdir)
	if err != nil {
		return nil, nil, err
	}
	want := func(name string) bool {
		if name == "rt.go" || len(only) == 0 {
			return true
		}
		for _, o := range only {
			if name == o {
				return true
			}
		}
		return false
	}
	for _, e := range ents {
		if e.IsDir() || !strings.HasSuffix(e.Name(), ".go") || !want(e.Name()) {
			continue
		}
		real := filepath.Join(hdir, e.Name())
		v := filepath.Join(repoDir, "zz_verif_"+e.Name())
		virt[v] = real
	}
	// package-internal hooks
	pdir := filepath.Join(hdir, "pkg")
	filepath.Walk(pdir, func(p string, info os.FileInfo, err error) error {
		if err != nil || info.IsDir() || !strings.HasSuffix(p, ".go") {
			return nil
		}
		rel, _ := filepath.Rel(pdir, p)
		wanted := false
		for _, h := range hooks {
			if filepath.Dir(rel) == h || h == "*" {
				wanted = true
			}
		}
		if !wanted {
			return nil
		}
		v := filepath.Join(repoDir, filepath.Dir(rel), "zz_verif_"+filepath.Base(rel))
		virt[v] = p
		return nil
	})
	for v, real := range virt {
		b, err := os.ReadFile(real)
		if err != nil {
			return nil, nil, err
		}
		content[v] = b
	}
	for v, b := range generated {
		content[v] = b
	}
	return virt, content, nil
}

// hooks: the package-internal accessor directories (under harness/pkg) the harness files need.
func NewRunner(tag string, generated map[string][]byte, only []string, hooks ...string) (*Runner, error) {
	r := &Runner{}
	r.WorkDir = filepath.Join(outDir, "work", fmt.Sprintf("%s-%d", tag, os.Getpid()))
	if err := os.MkdirAll(r.WorkDir, 0o755); err != nil {
		return nil, err
	}
	virt, content, err := collectOverlay(generated, only, hooks)
	if err != nil {
		return nil, err
	}
	// generated files are materialised in the work dir for the native build
	for v, b := range generated {
		real := filepath.Join(r.WorkDir, strings.ReplaceAll(strings.TrimPrefix(v, repoDir+"/"), "/", "__"))
		if err := os.WriteFile(real, b, 0o644); err != nil {
			return nil, err
		}
		virt[v] = real
	}
	r.Files = virt
	t0 := time.Now()
	interp.RepoPrefix = repoDir + "/"
	eng, err := interp.Load(repoDir, content)
	if err != nil {
		return nil, err
	}
	r.LoadSecs = time.Since(t0).Seconds()
	r.Eng = eng
	return r, nil
}

func goEnv() []string {
	return append(os.Environ(), "GOFLAGS=-mod=mod", "GOPROXY=off", "GOSUMDB=off", "GOTOOLCHAIN=local", "GOWORK=off")
}

// BuildNative compiles the same harness natively against /repo's working tree.
func (r *Runner) BuildNative() error {
	t0 := time.Now()
	ov := struct{ Replace map[string]string }{r.Files}
	b, _ := json.Marshal(ov)
	ovPath := filepath.Join(r.WorkDir, "overlay.json")
	if err := os.WriteFile(ovPath, b, 0o644); err != nil {
		return err
	}
	r.ReplayBin = filepath.Join(r.WorkDir, "replay")
	cmd := exec.Command("go", "build", "-overlay", ovPath, "-o", r.ReplayBin, ".")
	cmd.Dir = repoDir
	cmd.Env = goEnv()
	out, err := cmd.CombinedOutput()
	if err != nil {
		return fmt.Errorf("native build of the harness failed: %v\n%s", err, out)
	}
	r.BuildSecs = time.Since(t0).Seconds()
	return nil
}

func (r *Runner) Cleanup() {
	os.RemoveAll(r.WorkDir)
}

// NativeCase / NativeResult mirror harness/rt.go.
type NativeCase struct {
	ID      int                    `json:"id"`
	Entry   string                 `json:"entry"`
	Params  map[string]interface{} `json:"params"`
	Witness []uint64               `json:"witness"`
}

type NativeResult struct {
	ID       int                  `json:"id"`
	Outcome  string               `json:"outcome"`
	Msg      string               `json:"msg"`
	Obs      []interp.Observation `json:"obs"`
	Failures []string             `json:"failures"`
	Covers   []string             `json:"covers"`
}

// Replay runs the cases natively (sharded over procs processes).
func (r *Runner) Replay(cases []NativeCase, procs int) (map[int]*NativeResult, error) {
	res := make(map[int]*NativeResult, len(cases))
	if len(cases) == 0 {
		return res, nil
	}
	if procs < 1 {
		procs = 1
	}
	if procs > len(cases) {
		procs = len(cases)
	}
	var mu sync.Mutex
	var wg sync.WaitGroup
	var firstErr error
	per := (len(cases) + procs - 1) / procs
	for p := 0; p < procs; p++ {
		lo, hi := p*per, (p+1)*per
		if lo >= len(cases) {
			break
		}
		if hi > len(cases) {
			hi = len(cases)
		}
		shard := cases[lo:hi]
		wg.Add(1)
		go func(p int, shard []NativeCase) {
			defer wg.Done()
			path := filepath.Join(r.WorkDir, fmt.Sprintf("cases-%d.jsonl", p))
			f, err := os.Create(path)
			if err != nil {
				mu.Lock()
				firstErr = err
				mu.Unlock()
				return
			}
			w := bufio.NewWriter(f)
			for _, c := range shard {
				b, _ := json.Marshal(c)
				w.Write(b)
				w.WriteByte('\n')
			}
			w.Flush()
			f.Close()
			defer os.Remove(path)
			start := 0
			for start < len(shard) {
				cmd := exec.Command(r.ReplayBin, path, fmt.Sprint(start))
				var out bytes.Buffer
				cmd.Stdout = &out
				cmd.Stderr = &out
				err := cmd.Run()
				n := 0
				sc := bufio.NewScanner(&out)
				sc.Buffer(make([]byte, 1<<20), 1<<28)
				for sc.Scan() {
					var nr NativeResult
					if json.Unmarshal(sc.Bytes(), &nr) != nil {
						continue
					}
					n++
					mu.Lock()
					res[nr.ID] = &nr
					mu.Unlock()
				}
				if err == nil {
					break
				}
				if n == 0 {
					// the process died without reporting the case it was running
					// (fatal runtime error such as stack overflow or out of memory)
					c := shard[start]
					msg := lastLines(out.String(), 3)
					mu.Lock()
					res[c.ID] = &NativeResult{ID: c.ID, Outcome: "crash", Msg: msg}
					mu.Unlock()
					n = 1
				}
				start += n
			}
		}(p, shard)
	}
	wg.Wait()
	return res, firstErr
}

func lastLines(s string, n int) string {
	ls := strings.Split(strings.TrimSpace(s), "\n")
	if len(ls) > n {
		ls = ls[:n]
	}
	return strings.Join(ls, " | ")
}

// compare engine path result with the native run of its witness.
func agree(pr *interp.PathResult, nr *NativeResult) (bool, string) {
	if nr == nil {
		return false, "no native result"
	}
	switch pr.Outcome {
	case interp.OutOK:
		if nr.Outcome != "ok" {
			if len(pr.Failures) > 0 && (nr.Outcome == "panic" || nr.Outcome == "hang") && len(nr.Failures) > 0 {
				// the engine ended the path at an assertion that fails on every input of
				// the path; the native run records the same failure, carries on in the
				// corrupted state and may crash later: compare what both observed
				break
			}
			return false, fmt.Sprintf("engine ok, native %s (%s)", nr.Outcome, nr.Msg)
		}
	case interp.OutPanic:
		if nr.Outcome != "panic" && nr.Outcome != "crash" {
			return false, fmt.Sprintf("engine panic (%s at %s), native %s", pr.Msg, pr.Site, nr.Outcome)
		}
		return true, ""
	case interp.OutHang:
		if nr.Outcome != "hang" && nr.Outcome != "crash" {
			return false, fmt.Sprintf("engine hang (%s), native %s", pr.Msg, nr.Outcome)
		}
		return true, ""
	default:
		return true, ""
	}
	if len(pr.Failures) > 0 && len(nr.Obs) > len(pr.Obs) {
		// an assertion failed on this path: the engine stops where the failing side
		// is the only feasible one, the native run carries on
		nr = &NativeResult{Obs: nr.Obs[:len(pr.Obs)]}
	}
	if len(pr.Failures) > 0 && len(nr.Obs) < len(pr.Obs) && nr.Outcome != "ok" {
		pr = &interp.PathResult{Obs: pr.Obs[:len(nr.Obs)]}
	}
	if len(pr.Obs) != len(nr.Obs) {
		return false, fmt.Sprintf("observation count: engine %d native %d", len(pr.Obs), len(nr.Obs))
	}
	for k := range pr.Obs {
		if pr.Obs[k] != nr.Obs[k] {
			return false, fmt.Sprintf("observation %d (%s): engine %s native %s", k, pr.Obs[k].Tag, pr.Obs[k].Val, nr.Obs[k].Val)
		}
	}
	// failures found on the path with the final witness must be reproduced natively
	// (assertion witnesses are replayed separately)
	return true, ""
}

func sortedKeys(m map[string]int64) []string {
	var ks []string
	for k := range m {
		ks = append(ks, k)
	}
	sort.Strings(ks)
	return ks
}
