package main

// C03: valid programs yield the prescribed tree - the families of DESIGN.md 4/C03.
// The references (keyword table, operator table with precedence and associativity,
// dangling-else rule, version table) are written from the PHP manual, not read from
// the implementation.

import (
	"fmt"
	"sort"
	"strings"
)

func init() {
	props["C03"] = &propImpl{files: []string{"h_lib.go", "h_pipe.go", "h_corpus.go", "h_c03.go"}, run: runC03}
}

// keyword -> token name (PHP manual: list of keywords / list of parser tokens)
var c03Keywords = map[string]string{
	"abstract": "T_ABSTRACT", "and": "T_LOGICAL_AND", "array": "T_ARRAY", "as": "T_AS", "break": "T_BREAK", "callable": "T_CALLABLE",
	"case": "T_CASE", "catch": "T_CATCH", "class": "T_CLASS", "clone": "T_CLONE", "const": "T_CONST", "continue": "T_CONTINUE",
	"declare": "T_DECLARE", "default": "T_DEFAULT", "die": "T_EXIT", "do": "T_DO", "echo": "T_ECHO", "else": "T_ELSE", "elseif": "T_ELSEIF",
	"empty": "T_EMPTY", "enddeclare": "T_ENDDECLARE", "endfor": "T_ENDFOR", "endforeach": "T_ENDFOREACH", "endif": "T_ENDIF",
	"endswitch": "T_ENDSWITCH", "endwhile": "T_ENDWHILE", "eval": "T_EVAL", "exit": "T_EXIT", "extends": "T_EXTENDS", "final": "T_FINAL",
	"finally": "T_FINALLY", "fn": "T_FN", "for": "T_FOR", "foreach": "T_FOREACH", "function": "T_FUNCTION", "global": "T_GLOBAL", "goto": "T_GOTO",
	"if": "T_IF", "implements": "T_IMPLEMENTS", "include": "T_INCLUDE", "include_once": "T_INCLUDE_ONCE", "instanceof": "T_INSTANCEOF",
	"insteadof": "T_INSTEADOF", "interface": "T_INTERFACE", "isset": "T_ISSET", "list": "T_LIST", "namespace": "T_NAMESPACE", "new": "T_NEW",
	"or": "T_LOGICAL_OR", "print": "T_PRINT", "private": "T_PRIVATE", "protected": "T_PROTECTED", "public": "T_PUBLIC", "require": "T_REQUIRE",
	"require_once": "T_REQUIRE_ONCE", "return": "T_RETURN", "static": "T_STATIC", "switch": "T_SWITCH", "throw": "T_THROW", "trait": "T_TRAIT",
	"try": "T_TRY", "unset": "T_UNSET", "use": "T_USE", "var": "T_VAR", "while": "T_WHILE", "xor": "T_LOGICAL_XOR", "yield": "T_YIELD",
	"__class__": "T_CLASS_C", "__dir__": "T_DIR", "__file__": "T_FILE", "__function__": "T_FUNC_C", "__line__": "T_LINE",
	"__method__": "T_METHOD_C", "__namespace__": "T_NS_C", "__trait__": "T_TRAIT_C", "__halt_compiler": "T_HALT_COMPILER",
}

// cast spellings (PHP manual: type juggling / casting)
var c03Casts = map[string]string{
	"int": "T_INT_CAST", "integer": "T_INT_CAST", "bool": "T_BOOL_CAST", "boolean": "T_BOOL_CAST", "float": "T_DOUBLE_CAST",
	"double": "T_DOUBLE_CAST", "real": "T_DOUBLE_CAST", "string": "T_STRING_CAST", "binary": "T_STRING_CAST", "array": "T_ARRAY_CAST",
	"object": "T_OBJECT_CAST", "unset": "T_UNSET_CAST",
}

// ---- operator reference (PHP manual: operator precedence, PHP 5.6 - 7.4) -------------

type c03Op struct {
	lex    string
	prec   int
	assoc  byte // l, r, n
	assign bool
	php7   bool   // PHP 7 only
	shape  string // lexeme used by the harness rendering
}

var c03Binary = []c03Op{
	{" or ", 1, 'l', false, false, " or "}, {" xor ", 2, 'l', false, false, " xor "}, {" and ", 3, 'l', false, false, " and "},
	{"=", 6, 'r', true, false, "="}, {"+=", 6, 'r', true, false, "+="}, {"-=", 6, 'r', true, false, "-="}, {"*=", 6, 'r', true, false, "*="},
	{"/=", 6, 'r', true, false, "/="}, {".=", 6, 'r', true, false, ".="}, {"%=", 6, 'r', true, false, "%="}, {"&=", 6, 'r', true, false, "&="},
	{"|=", 6, 'r', true, false, "|="}, {"^=", 6, 'r', true, false, "^="}, {"<<=", 6, 'r', true, false, "<<="}, {">>=", 6, 'r', true, false, ">>="},
	{"**=", 6, 'r', true, false, "**="}, {"??=", 6, 'r', true, true, "??="},
	{"??", 8, 'r', false, true, "??"},
	{"||", 9, 'l', false, false, "||"}, {"&&", 10, 'l', false, false, "&&"},
	{"|", 11, 'l', false, false, "|"}, {"^", 12, 'l', false, false, "^"}, {"&", 13, 'l', false, false, "&"},
	{"==", 14, 'n', false, false, "=="}, {"!=", 14, 'n', false, false, "!="}, {"===", 14, 'n', false, false, "==="}, {"!==", 14, 'n', false, false, "!=="},
	{"<>", 14, 'n', false, false, "!="}, {"<=>", 14, 'n', false, true, "<=>"},
	{"<", 15, 'n', false, false, "<"}, {"<=", 15, 'n', false, false, "<="}, {">", 15, 'n', false, false, ">"}, {">=", 15, 'n', false, false, ">="},
	{"<<", 16, 'l', false, false, "<<"}, {">>", 16, 'l', false, false, ">>"},
	{"+", 17, 'l', false, false, "+"}, {"-", 17, 'l', false, false, "-"}, {".", 17, 'l', false, false, "."},
	{"*", 18, 'l', false, false, "*"}, {"/", 18, 'l', false, false, "/"}, {"%", 18, 'l', false, false, "%"},
	{"**", 22, 'r', false, false, "**"},
}

const (
	precTernary    = 7
	precNot        = 19
	precInstanceof = 20
	precUnary      = 21
	precPrint      = 4
)

type c03Unary struct {
	lex   string
	prec  int
	shape string
}

var c03Unaries = []c03Unary{
	{"!", precNot, "!"}, {"~", precUnary, "~"}, {"-", precUnary, "-"}, {"+", precUnary, "+"}, {"@", precUnary, "@"},
	{"(int)", precUnary, "(int)"}, {"(float)", precUnary, "(float)"}, {"(string)", precUnary, "(string)"}, {"(bool)", precUnary, "(bool)"},
	{"(array)", precUnary, "(array)"}, {"(object)", precUnary, "(object)"}, {"(unset)", precUnary, "(unset)"}, {"print ", precPrint, "print "},
}

// reference parser over a token list: operands are "$a".."$e", operators as above,
// "?" ":" for the conditional, unary prefixes, "instanceof" with a name operand.
type c03Tok struct {
	kind string // var | bin | un | ? | : | instanceof | name
	text string
	op   *c03Op
	un   *c03Unary
}

type c03Parser struct {
	toks []c03Tok
	pos  int
	err  bool
}

func (p *c03Parser) peek() *c03Tok {
	if p.pos < len(p.toks) {
		return &p.toks[p.pos]
	}
	return nil
}

// primary: variable or unary prefix applied to an expression of the prefix's level.
func (p *c03Parser) primary() (string, bool) {
	t := p.peek()
	if t == nil {
		p.err = true
		return "", false
	}
	p.pos++
	switch t.kind {
	case "var":
		return t.text, true
	case "un":
		e := p.expr(t.un.prec)
		return "(" + t.un.shape + e + ")", false
	}
	p.err = true
	return "", false
}

// expr parses an expression whose operators all bind at least as tightly as min.
func (p *c03Parser) expr(min int) string {
	left, isVar := p.primary()
	lastNonAssoc := -1
	for !p.err {
		t := p.peek()
		if t == nil {
			break
		}
		switch t.kind {
		case "bin":
			op := t.op
			if op.assign {
				// 'variable = expr' is a production of its own: once the left operand is a
				// variable the assignment is taken whatever the surrounding precedence
				if !isVar {
					if op.prec < min {
						return left
					}
					p.err = true
					return left
				}
				p.pos++
				right := p.expr(op.prec)
				left, isVar = "("+left+op.shape+right+")", false
				continue
			}
			if op.prec < min {
				return left
			}
			if op.assoc == 'n' && lastNonAssoc == op.prec {
				p.err = true
				return left
			}
			p.pos++
			next := op.prec + 1
			if op.assoc == 'r' {
				next = op.prec
			}
			right := p.expr(next)
			left, isVar = "("+left+op.shape+right+")", false
			if op.assoc == 'n' {
				lastNonAssoc = op.prec
			} else {
				lastNonAssoc = -1
			}
		case "instanceof":
			if precInstanceof < min {
				return left
			}
			p.pos++
			n := p.peek()
			if n == nil || n.kind != "name" {
				p.err = true
				return left
			}
			p.pos++
			left, isVar = "("+left+" instanceof "+n.text+")", false
			lastNonAssoc = -1
		case "?":
			if precTernary < min {
				return left
			}
			p.pos++
			mid := ""
			if nt := p.peek(); nt != nil && nt.kind == ":" {
				// short form ?:
			} else {
				mid = p.expr(0)
			}
			if c := p.peek(); c == nil || c.kind != ":" {
				p.err = true
				return left
			}
			p.pos++
			right := p.expr(precTernary + 1) // left-associative in PHP 5 and 7
			left, isVar = "("+left+"?"+mid+":"+right+")", false
			lastNonAssoc = -1
		default:
			return left
		}
	}
	return left
}

func c03Reference(toks []c03Tok) string {
	p := &c03Parser{toks: toks}
	s := p.expr(0)
	if p.err || p.pos != len(toks) {
		return "ERROR"
	}
	return s
}

func c03Render(toks []c03Tok) string {
	var sb strings.Builder
	for i, t := range toks {
		if i > 0 {
			sb.WriteByte(' ')
		}
		sb.WriteString(strings.TrimSpace(t.text))
	}
	return sb.String()
}

func vTok(name string) c03Tok   { return c03Tok{kind: "var", text: name} }
func bTok(op *c03Op) c03Tok      { return c03Tok{kind: "bin", text: op.lex, op: op} }
func uTok(u *c03Unary) c03Tok    { return c03Tok{kind: "un", text: u.lex, un: u} }
func qTok() c03Tok               { return c03Tok{kind: "?", text: "?"} }
func colTok() c03Tok             { return c03Tok{kind: ":", text: ":"} }
func iofTok() c03Tok             { return c03Tok{kind: "instanceof", text: "instanceof"} }
func nameTok(n string) c03Tok    { return c03Tok{kind: "name", text: n} }
func seq(ts ...c03Tok) []c03Tok { return ts }

// ---- version table (PHP manual: migration guides) ------------------------------------

type c03Gate struct {
	what, src  string
	major      int
	minor      int
	bothFamily bool
}

var c03Gates = []c03Gate{
	{"null coalescing operator", "<?php $a ?? $b;", 7, 0, false},
	{"spaceship operator", "<?php $a <=> $b;", 7, 0, false},
	{"return type declaration", "<?php function f(): int {}", 7, 0, false},
	{"scalar parameter type with nullable mark", "<?php function f(?A $a) {}", 7, 0, false},
	{"yield from", "<?php function g() { yield from f(); }", 7, 0, false},
	{"anonymous class", "<?php new class {};", 7, 0, false},
	{"group use declaration", "<?php use A\\{B, C};", 7, 0, false},
	{"arrow function", "<?php $f = fn($x) => $x;", 7, 0, false},
	{"typed property", "<?php class C { public int $p; }", 7, 0, false},
	{"null coalescing assignment", "<?php $a ??= 1;", 7, 0, false},
	{"multi catch", "<?php try {} catch (A | B $e) {}", 7, 0, false},
	{"class constant visibility", "<?php class C { private const X = 1; }", 7, 0, false},
	{"keyword as member name", "<?php A::list();", 7, 0, false},
	{"closure call on a parenthesised expression", "<?php (function() {})();", 7, 0, false},
	{"flexible heredoc: indented closing label", "<?php $a = <<<A\n  x\n  A;\n", 7, 3, false},
	{"flexible heredoc: closing label followed by more code", "<?php $a = [<<<A\n  x\n  A, 1];\n", 7, 3, false},
	{"flexible nowdoc: closing label followed by more code", "<?php f(<<<'A'\n x\n A);\n", 7, 3, false},
	{"classic heredoc", "<?php $a = <<<A\nx\nA;\n", 5, 0, true},
	{"power operator", "<?php $a ** $b;", 5, 0, true},
	{"variadic parameter", "<?php function f(...$a) {}", 5, 0, true},
	{"use function", "<?php use function a\\b;", 5, 0, true},
	{"finally", "<?php try {} finally {}", 5, 0, true},
	{"short array and list in foreach", "<?php foreach ($a as list($b, $c)) {}", 5, 0, true},
}

// numeric literals (PHP manual: integers, floating point numbers, string interpolation:
// "simple syntax" array offsets are integers only when written as plain decimal numbers)
type c03Literal struct {
	text, want, pick string
	php74            bool
	value            string // "7": PHP 7 only (negative offsets inside strings)
}

func (l c03Literal) valueText() string { return l.text }

var c03Literals = []c03Literal{
	{"0", "ScalarLnumber", "expr", false, ""}, {"1234567890", "ScalarLnumber", "expr", false, ""},
	{"9223372036854775807", "ScalarLnumber", "expr", false, ""}, {"9223372036854775808", "ScalarDnumber", "expr", false, ""},
	{"0x7FFFFFFFFFFFFFFF", "ScalarLnumber", "expr", false, ""}, {"0x8000000000000000", "ScalarDnumber", "expr", false, ""},
	{"0X1f", "ScalarLnumber", "expr", false, ""}, {"0b101", "ScalarLnumber", "expr", false, ""}, {"0B11", "ScalarLnumber", "expr", false, ""},
	{"0777", "ScalarLnumber", "expr", false, ""}, {"01777777777777777777777", "ScalarDnumber", "expr", false, ""},
	{"0b111111111111111111111111111111111111111111111111111111111111111", "ScalarLnumber", "expr", false, ""},
	{"0b1000000000000000000000000000000000000000000000000000000000000000", "ScalarDnumber", "expr", false, ""},
	{"1.5", "ScalarDnumber", "expr", false, ""}, {".5", "ScalarDnumber", "expr", false, ""}, {"1.", "ScalarDnumber", "expr", false, ""},
	{"1e3", "ScalarDnumber", "expr", false, ""}, {"1E-3", "ScalarDnumber", "expr", false, ""}, {"1.5e+3", "ScalarDnumber", "expr", false, ""},
	{"1_000", "ScalarLnumber", "expr", true, ""}, {"0x1_F", "ScalarLnumber", "expr", true, ""}, {"1_0.5_0", "ScalarDnumber", "expr", true, ""},
	{"0", "ScalarLnumber", "dim", false, ""}, {"7", "ScalarLnumber", "dim", false, ""}, {"1234567890", "ScalarLnumber", "dim", false, ""},
	{"9223372036854775807", "ScalarLnumber", "dim", false, ""}, {"9223372036854775808", "ScalarString", "dim", false, ""},
	{"017", "ScalarString", "dim", false, ""}, {"00", "ScalarString", "dim", false, ""},
	{"0x1F", "ScalarString", "dim", false, ""}, {"0b11", "ScalarString", "dim", false, ""},
	{"-1", "ExprUnaryMinus(ScalarLnumber)", "dim", false, "7"}, {"-0x1F", "ScalarString", "dim", false, "7"}, {"-017", "ScalarString", "dim", false, "7"},
	{"a", "ScalarString", "dim", false, ""}, {"1_000", "ScalarString", "dim", true, ""}, {"-1_0", "ScalarString", "dim", true, ""},
}

func runC03(c *Check) error {
	c.Assumptions = append(c.Assumptions, stdAssumptions...)
	c.Assumptions = append(c.Assumptions,
		"the references are the PHP manual's keyword list, operator precedence table (PHP 5.6-7.4: '.' binds like '+'/'-', the conditional operator is left-associative, comparison operators are non-associative, 'variable = expr' is taken whatever the surrounding precedence) and migration guides, as written down in engine/cmd/check/p_c03.go and harness/h_c03.go",
		"this parser has one grammar per family, so a PHP 7.x construct is expected under every 7.x version; the 7.3 heredoc change is the only minor-version gate")
	ids, err := readTokIDs()
	if err != nil {
		return err
	}
	thorough := c.Tier == "thorough"
	vers := []string{"7.4", "5.6"}
	var needs []JobNeed
	add := func(entry, tag, ver string, t []string, params map[string]interface{}, cover string) {
		j := jobTmpl(entry, tag, tmpl(t...), ver, 3_000_000)
		for k, v := range params {
			j.Params[k] = v
		}
		needs = append(needs, JobNeed{Job: j, Cover: []string{cover}})
	}
	// (1) keywords and casts in every letter case
	var kws []string
	for k := range c03Keywords {
		kws = append(kws, k)
	}
	sort.Strings(kws)
	for _, ver := range vers {
		for _, kw := range kws {
			id := ids.id(c03Keywords[kw])
			if id == 0 {
				return fmt.Errorf("token %s not found in pkg/token/token.go", c03Keywords[kw])
			}
			tail := " ;"
			if kw == "__halt_compiler" {
				tail = "();"
			}
			add("H_C03_Keyword", "keywords", ver, []string{tC("<?php "), "K" + kw, tC(tail)},
				map[string]interface{}{"at": 6, "n": len(kw), "tok": id, "exact": 1, "what": "keyword " + kw}, "lexed")
			// followed by an identifier byte it is an ordinary name (longest match)
			if kw != "include" && kw != "require" && kw != "end" && !strings.HasPrefix(kw, "__") {
				add("H_C03_Keyword", "keywords", ver, []string{tC("<?php "), "K" + kw, tH('i', 1, 1), tC(" ;")},
					map[string]interface{}{"at": 6, "n": len(kw) + 1, "tok": ids.id("T_STRING"), "exact": 0, "what": "keyword " + kw + " followed by an identifier byte"}, "lexed")
			}
			// after -> it is a property name
			add("H_C03_Keyword", "keywords", ver, []string{tC("<?php $a->"), "K" + kw, tC(" ;")},
				map[string]interface{}{"at": 10, "n": len(kw), "tok": ids.id("T_STRING"), "exact": 1, "what": "keyword " + kw + " after ->"}, "lexed")
			// ... also when white space or a line break stands between -> and the name
			for _, ws := range [][]string{{tH('s', 1, 1)}, {tC("\n")}, {tC("\r\n")}, {tH('s', 1, 1), tC("\n"), tH('s', 1, 1)}} {
				n := 0
				for _, seg := range ws {
					if seg[0] == 'H' {
						n++
					} else {
						n += len(seg) - 1
					}
				}
				t := append(append([]string{tC("<?php $a->")}, ws...), "K"+kw, tC(" ;"))
				add("H_C03_Keyword", "keywords", ver, t,
					map[string]interface{}{"at": 10 + n, "n": len(kw), "tok": ids.id("T_STRING"), "exact": 1, "what": "keyword " + kw + " after -> and white space"}, "lexed")
			}
		}
		var casts []string
		for k := range c03Casts {
			casts = append(casts, k)
		}
		sort.Strings(casts)
		for _, cs := range casts {
			add("H_C03_Keyword", "casts", ver, []string{tC("<?php ("), tH('s', 0, 2), "K" + cs, tH('s', 0, 2), tC(")$a;")},
				map[string]interface{}{"at": 6, "n": 0, "tok": ids.id(c03Casts[cs]), "exact": 0, "what": "cast (" + cs + ")"}, "lexed")
		}
		add("H_C03_Keyword", "keywords", ver, []string{tC("<?php "), "Kyield", tH('s', 1, 2), "Kfrom", tC(" $a;")},
			map[string]interface{}{"at": 6, "n": 0, "tok": ids.id("T_YIELD_FROM"), "exact": 0, "what": "yield from"}, "lexed")
	}
	// (2) operator grouping
	nexpr := 0
	exprJob := func(ver string, toks []c03Tok, family string) {
		src := c03Render(toks)
		want := c03Reference(toks)
		add("H_C03_Expr", family, ver, []string{tC("<?php " + src + ";")}, map[string]interface{}{"want": want, "what": src}, "checked")
		nexpr++
	}
	for _, ver := range vers {
		var ops []*c03Op
		for i := range c03Binary {
			if ver == "5.6" && c03Binary[i].php7 {
				continue
			}
			ops = append(ops, &c03Binary[i])
		}
		a, b, cc, d := vTok("$a"), vTok("$b"), vTok("$c"), vTok("$d")
		for _, o1 := range ops {
			for _, o2 := range ops {
				exprJob(ver, seq(a, bTok(o1), b, bTok(o2), cc), "binary pairs")
			}
			// with the conditional operator
			exprJob(ver, seq(a, qTok(), b, colTok(), cc, bTok(o1), d), "conditional")
			exprJob(ver, seq(a, bTok(o1), b, qTok(), cc, colTok(), d), "conditional")
			exprJob(ver, seq(a, qTok(), b, bTok(o1), cc, colTok(), d), "conditional")
			exprJob(ver, seq(a, qTok(), colTok(), b, bTok(o1), cc), "conditional")
			// instanceof
			exprJob(ver, seq(a, bTok(o1), b, iofTok(), nameTok("C")), "instanceof")
			exprJob(ver, seq(a, iofTok(), nameTok("C"), bTok(o1), b), "instanceof")
			for ui := range c03Unaries {
				u := &c03Unaries[ui]
				exprJob(ver, seq(uTok(u), a, bTok(o1), b), "unary and binary")
				exprJob(ver, seq(a, bTok(o1), uTok(u), b), "unary and binary")
			}
		}
		for ui := range c03Unaries {
			u := &c03Unaries[ui]
			exprJob(ver, seq(uTok(u), a, iofTok(), nameTok("C")), "instanceof")
			exprJob(ver, seq(uTok(u), a, qTok(), b, colTok(), cc), "conditional")
			for uj := range c03Unaries {
				exprJob(ver, seq(uTok(u), uTok(&c03Unaries[uj]), a), "unary and binary")
			}
		}
		exprJob(ver, seq(a, qTok(), b, colTok(), cc, qTok(), d, colTok(), vTok("$e")), "conditional")
		exprJob(ver, seq(a, qTok(), b, qTok(), cc, colTok(), d, colTok(), vTok("$e")), "conditional")
		if thorough {
			// triples over one representative per precedence level
			var reps []*c03Op
			seen := map[string]bool{}
			for _, o := range ops {
				k := fmt.Sprintf("%d%c%v", o.prec, o.assoc, o.assign)
				if !seen[k] {
					seen[k] = true
					reps = append(reps, o)
				}
			}
			for _, o1 := range reps {
				for _, o2 := range reps {
					for _, o3 := range reps {
						exprJob(ver, seq(a, bTok(o1), b, bTok(o2), cc, bTok(o3), d), "binary triples")
					}
				}
			}
		}
	}
	// (3) dangling else
	nif := 0
	for _, ver := range vers {
		for depth := 2; depth <= 4; depth++ {
			for nelse := 0; nelse <= depth; nelse++ {
				for mask := 0; mask < 1<<uint(nelse); mask++ {
					// mask bit k: the k-th else clause is preceded by an elseif
					src, want := c03IfChain(depth, nelse, mask)
					add("H_C03_If", "dangling else", ver, []string{tC("<?php " + src)}, map[string]interface{}{"want": want, "what": src}, "checked")
					nif++
				}
			}
		}
		// a loop between the ifs does not change the rule
		add("H_C03_If", "dangling else", ver, []string{tC("<?php if ($a) while ($b) if ($c) x1; else x2;")},
			map[string]interface{}{"want": "if($a){while($b){if($c){x1;}else{x2;}}}", "what": "if while if else"}, "checked")
		add("H_C03_If", "dangling else", ver, []string{tC("<?php if ($a) { if ($b) x1; } else x2;")},
			map[string]interface{}{"want": "if($a){if($b){x1;}}else{x2;}", "what": "braces close the inner if"}, "checked")
	}
	// (4) the programs the committed baseline accepts are accepted
	snips, err := loadCorpus()
	if err != nil {
		return err
	}
	nacc := 0
	for _, ver := range []string{"7.4", "7.2", "5.6"} {
		for _, s := range snips {
			if !s.okFor(ver) {
				continue
			}
			if !thorough && ver == "7.2" && (s.Class == "pair" || s.Class == "triple" || s.Class == "double" || s.Class == "dirty") {
				continue
			}
			add("H_C03_Accept", "baseline acceptance", ver, []string{tC(s.Src)}, map[string]interface{}{"origin": s.Origin}, "accepted")
			nacc++
		}
	}
	// (4b) ... and stay accepted, with the same tree, with any admissible trivia between their
	//      tokens (white space of every newline style, comments, one-line comments ended by a
	//      close tag): C08's harness on gaps sampled by token context
	for _, ver := range []string{"7.4", "5.6"} {
		tj, err := c.triviaJobs("H_C08", ver, tierEvery(c, 8, 3), thorough, 3_000_000, "")
		if err != nil {
			return err
		}
		for _, n := range tj {
			n.Job.Tag = "acceptance with trivia"
			needs = append(needs, n)
		}
	}
	// (5) version gating with a symbolic version
	for _, g := range c03Gates {
		j := jobTmpl("H_C03_Gate", "version gating", "", "", 3_000_000)
		j.Params["src"] = g.src
		j.Params["minmajor"] = g.major
		j.Params["minminor"] = g.minor
		j.Params["what"] = g.what
		cv := []string{"accepted"}
		if !g.bothFamily {
			cv = append(cv, "rejected")
		}
		needs = append(needs, JobNeed{Job: j, Cover: cv})
	}
	// (6) numeric literals: integer vs float by range, offsets inside strings
	for _, ver := range vers {
		for _, l := range c03Literals {
			if (l.php74 || l.value == "7") && ver != "7.4" {
				continue
			}
			src := "<?php " + l.text + ";"
			if l.pick == "dim" {
				src = "<?php \"$a[" + l.text + "]\";"
			}
			add("H_C03_Literal", "literals", ver, []string{tC(src)}, map[string]interface{}{"want": l.want, "pick": l.pick, "text": l.valueText(), "what": l.text + " as " + l.pick}, "checked")
			if l.pick == "dim" {
				add("H_C03_Literal", "literals", ver, []string{tC("<?php <<<A\n$a[" + l.text + "]\nA;\n")}, map[string]interface{}{"want": l.want, "pick": l.pick, "text": l.valueText(), "what": l.text + " as heredoc " + l.pick}, "checked")
			}
		}
	}
	c.ExploreNeeds(needs, nil)
	c.Extra["literals"] = len(c03Literals)
	c.Extra["keywords"] = len(kws)
	c.Extra["cast_spellings"] = len(c03Casts)
	c.Extra["expression_templates"] = nexpr
	c.Extra["if_templates"] = nif
	c.Extra["baseline_accepted_programs"] = nacc
	c.Extra["version_gates"] = len(c03Gates)
	c.Bounds = append(c.Bounds,
		bound("keywords: %d keywords and %d cast spellings with every letter in either case (2^len spellings on one path each), alone, followed by one identifier byte, after '->', after '->' and white space / a line break; casts with 0..2 blanks inside the parentheses; 'yield from' with 1..2 blanks", len(kws), len(c03Casts)),
		bound("operator grouping: every ordered pair of the %d binary/assignment operators, each with the conditional operator (4 placements), instanceof (2), and 13 prefix operators (2 placements), nested and short conditionals%s; expected tree from a reference precedence-climbing parser", len(c03Binary), map[bool]string{true: ", triples over one representative per precedence level", false: ""}[thorough]),
		"dangling else: if-chains of depth 2..4 with 0..depth else clauses, each optionally preceded by an elseif",
		"acceptance: every program of the committed corpus (test snippets and grammar sentences) that the baseline accepts under 7.4 / 7.2 / 5.6",
		bound("version gating: %d constructs with a fully symbolic supported version (accepted exactly from the version that introduced them)", len(c03Gates)),
		bound("literals: %d integer / float / string-offset spellings at the range and radix boundaries (integer overflow becomes a float, non-decimal offsets inside strings are string keys)", len(c03Literals)),
		"all statement and expression forms arbitrarily nested and combined are NOT covered: the claim is exactly these families")
	return nil
}

// c03IfChain: "if ($c1) if ($c2) ... x0; [elseif ($e) y;] else x1; ..." with nelse else
// clauses; PHP attaches every else (and elseif) to the nearest if that has none yet.
func c03IfChain(depth, nelse, mask int) (src, want string) {
	var sb strings.Builder
	for i := 1; i <= depth; i++ {
		fmt.Fprintf(&sb, "if ($c%d) ", i)
	}
	sb.WriteString("x0;")
	// clauses attach from the innermost if outwards
	type cl struct{ elseif, els string }
	cls := make([]cl, depth+1)
	for k := 0; k < nelse; k++ {
		target := depth - k // innermost first
		if mask&(1<<uint(k)) != 0 {
			fmt.Fprintf(&sb, " elseif ($e%d) y%d;", k, k)
			cls[target].elseif = fmt.Sprintf("elseif($e%d){y%d;}", k, k)
		}
		fmt.Fprintf(&sb, " else x%d;", k+1)
		cls[target].els = fmt.Sprintf("else{x%d;}", k+1)
	}
	var build func(i int) string
	build = func(i int) string {
		inner := "x0;"
		if i < depth {
			inner = build(i + 1)
		}
		return fmt.Sprintf("if($c%d){%s}%s%s", i, inner, cls[i].elseif, cls[i].els)
	}
	return sb.String(), build(1)
}
