package main

import (
	"fmt"
	"sort"
	"strings"

	"verif/engine/interp"
)

// CrossSolvers re-decides the given jobs (the ones whose verdict rests on SMT queries over
// 64-bit values rather than on byte domains) with z3 4.8.12, z3 5.1.0 and cvc5 1.0 and
// compares, per job, the multiset of path outcomes and failed assertions. A difference is a
// defect of the machinery (encoding or solver), not a violation: the check ends without verdict.
func (c *Check) CrossSolvers(jobs []*interp.Job) {
	if len(jobs) == 0 {
		return
	}
	prev := c.R.Eng.SolverCmd
	defer func() { c.R.Eng.SolverCmd = prev }()
	summaries := map[string][]string{}
	solvers := []string{"z3", "z3-new", "cvc5"}
	queries := map[string]int64{}
	for _, s := range solvers {
		c.R.Eng.SolverCmd = s
		perJob := map[*interp.Job][]string{}
		st := c.R.Eng.ExploreMany(jobs, func(pr *interp.PathResult) {
			var f []string
			for _, x := range pr.Failures {
				f = append(f, x.ID)
			}
			sort.Strings(f)
			perJob[pr.Job] = append(perJob[pr.Job], fmt.Sprintf("%s[%s]", pr.Outcome, strings.Join(f, ",")))
		})
		queries[s] = st.Z3Queries
		for _, j := range jobs {
			l := perJob[j]
			sort.Strings(l)
			summaries[s] = append(summaries[s], fmt.Sprintf("%s %v: %s", j.Entry, j.Params, strings.Join(l, " ")))
		}
	}
	agree := true
	for k := range jobs {
		a := summaries["z3"][k]
		for _, s := range solvers[1:] {
			if summaries[s][k] != a {
				agree = false
				c.EngineErrors = append(c.EngineErrors, fmt.Sprintf("solver disagreement on %s\n  z3:  %s\n  %s: %s", jobs[k].Entry, a, s, summaries[s][k]))
			}
		}
	}
	c.Extra["solver_cross_check"] = map[string]interface{}{"jobs": len(jobs), "solvers": solvers, "queries": queries, "agree": agree}
}
