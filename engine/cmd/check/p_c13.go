package main

import (
	"fmt"
	"sort"
)

func init() {
	props["C13"] = &propImpl{files: []string{"h_lib.go", "h_c16.go", "h_kinds.go", "h_c13.go"}, run: runC13}
	props["C11"] = &propImpl{files: []string{"h_lib.go", "h_c16.go", "h_kinds.go", "h_c13.go"}, run: runC11}
}

// heavyTier: the same shapes with a smaller raw-input bound in the quick tier (the
// dumper's strconv.Quote forks on every symbolic value byte).
func heavyTier(c *Check) (K0, K1, K2 int, vers string) {
	K0, K1, K2, vers = pipeTier(c)
	if c.Tier != "thorough" {
		K0 = 2
	} else {
		K0 = 4
	}
	return
}

func runC13(c *Check) error {
	K0, K1, K2, vers := heavyTier(c)
	c.Bounds = append(c.Bounds, shortBounds(K0, K1, K2, vers)...)
	c.Bounds = append(c.Bounds, "histories: one step of each operation from every parsed tree of the bound (tree, source buffer and static memory compared before/after: the inductive step for sequences of any length) plus a second round in the opposite order whose outputs must equal the first round's")
	c.Assumptions = append(c.Assumptions, stdAssumptions...)
	c.Assumptions = append(c.Assumptions, "each operation is a deterministic function of the tree and its own fresh visitor (checked by C11's determinism part)")
	c.ExploreNeeds(shortShapes("H_C13", K0, K1, K2, vers, 3_000_000), nil)
	c.ExploreNeeds(resolverShapes("H_C13", "7.4", 6_000_000), nil)
	c.Bounds = append(c.Bounds, resolverBound)
	return corpusShapes(c, "H_C13", 0, false, 12_000_000)
}

func runC11(c *Check) error {
	K0, K1, K2, vers := heavyTier(c)
	c.Bounds = append(c.Bounds, shortBounds(K0, K1, K2, vers)...)
	c.Bounds = append(c.Bounds, "schedules are not explored: decided is the premise that makes them irrelevant (no library write to memory that exists before the pipeline starts; results share no objects) and determinism; the step from there to all interleavings is the Go memory model")
	c.Assumptions = append(c.Assumptions, stdAssumptions...)
	c.Assumptions = append(c.Assumptions, "memory allocated during package initialisation and everything reachable from package-level variables is 'static'; a pipeline's own allocations are private to it; cmd/php-parser's goroutine/channel protocol is outside the claim")
	c.ExploreNeeds(shortShapes("H_C11", K0, K1, K2, vers, 3_000_000), nil)
	c.ExploreNeeds(resolverShapes("H_C11", "7.4", 6_000_000), nil)
	c.Bounds = append(c.Bounds, resolverBound)
	if err := corpusShapes(c, "H_C11", 0, false, 12_000_000); err != nil {
		return err
	}
	scanned, found := c.R.Eng.ScanNondeterminism(c.funcs, "github.com/z7zmey/php-parser")
	c.Extra["functions_scanned_for_nondeterminism"] = scanned
	sort.Strings(found)
	for _, f := range found {
		sig := "nondeterministic-construct|" + shortFn(f)
		c.addFinding(&Finding{Signature: sig, What: "an executed library function contains a construct whose outcome may depend on scheduling, iteration order, time or shared state: " + shortFn(f), Kind: "static"})
	}
	if scanned == 0 {
		c.Vacuous = append(c.Vacuous, fmt.Sprintf("no executed library function was scanned"))
	}
	return nil
}
