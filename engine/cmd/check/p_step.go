package main

import (
	"strings"

	"verif/engine/interp"
)

// S7: one or two calls of Lex from a constructed between-tokens state (DESIGN.md 10.8).
var stepStates = []string{"main", "html", "php", "property", "nowdoc", "heredoc", "backqote", "template_string", "heredoc_end",
	"string_var", "string_var_index", "string_var_name", "halt_compiller_open_parenthesis", "halt_compiller_close_parenthesis",
	"halt_compiller_close_semicolon", "halt_compiller_end"}

// return addresses the call structure of scanner.rl can push
var stepReturn = []string{"php", "heredoc", "backqote", "template_string"}
var stepStringModes = []string{"heredoc", "backqote", "template_string"}

func stepStacks(cs string, depth int) []string {
	var base []string // stacks over stepReturn of depth 0..depth
	var gen func(prefix []string, d int)
	gen = func(prefix []string, d int) {
		base = append(base, strings.Join(prefix, ","))
		if d == 0 {
			return
		}
		for _, r := range stepReturn {
			gen(append(append([]string{}, prefix...), r), d-1)
		}
	}
	gen(nil, depth)
	switch cs {
	case "main":
		return []string{""}
	case "string_var", "string_var_name":
		var out []string
		for _, b := range base {
			for _, m := range stepStringModes {
				if strings.Count(b, ",")+1 < depth || b == "" {
					out = append(out, strings.TrimPrefix(b+","+m, ","))
				}
			}
		}
		return out
	case "string_var_index":
		var out []string
		for _, b := range base {
			for _, m := range stepStringModes {
				if b == "" || strings.Count(b, ",")+1 < depth {
					out = append(out, strings.TrimPrefix(b+","+m+",string_var", ","))
				}
			}
		}
		return out
	}
	return base
}

func stepJobs(c *Check) {
	if reducedRun {
		c.Bounds = append(c.Bounds, "REDUCED: the lexer's unexported fields are not the ones the accessors expect; the S7 lexer-step shapes could not be set up on this tree")
		return
	}
	kPhp, kOther, depth, calls := 2, 3, 1, 2
	labels := []string{"A"}
	vers := "7.4,5.6"
	if c.Tier == "thorough" {
		// one more byte everywhere (x30 paths in the php state); stacks of depth 2 would
		// multiply that by another 4 and are left to the quick-tier lengths (below)
		kPhp, kOther, depth, calls = 3, 4, 1, 2
		labels = []string{"A", "AB"}
		vers = "7.4,7.2,5.6"
	}
	var needs []JobNeed
	quick := c.Tier != "thorough"
	for _, cs := range stepStates {
		k := kOther
		if cs == "php" || cs == "property" || strings.HasPrefix(cs, "halt_compiller") || cs == "string_var_name" {
			k = kPhp // these fall back into the php state, whose behaviours multiply by ~30 per byte
		}
		doc := strings.Contains(cs, "doc")
		if quick && !doc {
			k = kPhp
		}
		stacks := stepStacks(cs, depth)
		if quick && (cs == "property" || cs == "html" || strings.HasPrefix(cs, "halt_compiller")) {
			stacks = []string{""} // these states never look at the stack themselves
		}
		for _, st := range stacks {
			v := vers
			if quick && !doc && !strings.Contains(st, "heredoc") {
				v = "7.4" // only the heredoc predicates look at the version
			}
			for _, lb := range labels {
				if lb != "A" && !(doc || strings.Contains(st, "heredoc")) {
					continue
				}
				for kk := 0; kk <= k; kk++ {
					j := &interp.Job{Entry: "H_Step", Tag: "S7 lexer step/" + cs, Fuel: 900_000,
						Params: map[string]interface{}{"cs": cs, "stack": st, "k": kk, "calls": calls, "label": lb, "ver": v}}
					needs = append(needs, JobNeed{Job: j})
				}
			}
		}
	}
	if !quick {
		// depth-2 stacks with the quick-tier lengths
		for _, cs := range []string{"php", "heredoc", "template_string", "backqote", "string_var", "string_var_index", "string_var_name"} {
			for _, st := range stepStacks(cs, 2) {
				if strings.Count(st, ",") < 1 {
					continue
				}
				for kk := 0; kk <= 2; kk++ {
					j := &interp.Job{Entry: "H_Step", Tag: "S7 lexer step/" + cs, Fuel: 900_000,
						Params: map[string]interface{}{"cs": cs, "stack": st, "k": kk, "calls": calls, "label": "A", "ver": "7.4,5.6"}}
					needs = append(needs, JobNeed{Job: j})
				}
			}
		}
	}
	c.ExploreNeeds(needs, nil)
	c.Bounds = append(c.Bounds, bound("S7 lexer step: %d consecutive calls of (*Lexer).Lex from a constructed between-tokens state - each of the 16 scanner entry states, every state stack of depth 0..%d (thorough tier: also depth 2 for the php and string states with 0..2 bytes) that the call structure of scanner.rl can build, two arbitrary look-behind bytes, heredoc label %v, followed by every byte string of length 0..%d (nowdoc, heredoc, heredoc_end; thorough tier: all string states) or 0..%d (the others) up to the end of input; versions %s (quick tier: 7.4 only where neither the state nor the stack involves a heredoc; property, html and halt-compiler states with an empty stack); callback set or nil", calls, depth, labels, kOther, kPhp, vers),
		"S7 invariant assumed of the pre-state and asserted of the post-state: cs and all stack entries are entry states, 0 <= top <= len(stack), p <= pe; in nowdoc/heredoc the closing label is not at the cursor, in heredoc_end it is (both through the lexer's own isHeredocEnd); asserted in addition: progress (p grows or the end-of-input token is returned), token text is the source slice at its offsets, input buffer unchanged")
}

func init() {
	// development entry, not registered in MANIFEST.json: the S7 jobs alone
	props["DEV-STEP"] = &propImpl{files: []string{"h_lib.go", "h_step.go"}, run: func(c *Check) error {
		c.Assumptions = append(c.Assumptions, stdAssumptions...)
		stepJobs(c)
		return nil
	}}
}
