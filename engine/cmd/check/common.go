package main

import "fmt"

func bound(f string, a ...interface{}) string { return fmt.Sprintf(f, a...) }

var stdAssumptions = []string{
	"go/packages + go/ssa v0.29.0 translate /repo's current sources faithfully (front end)",
	"symgo's semantics for the executed SSA instruction kinds and Go's run-time checks (every explored path is re-run natively on its solver model and must agree)",
	"std functions are modelled, not interpreted: errors.New, fmt.Sprintf (%s %d %c %v), strings.{HasPrefix,HasSuffix,Replace,SplitN,ToLower(ASCII),Repeat}, bytes.{Equal,HasPrefix,HasSuffix,Repeat}, strconv.{ParseInt,ParseUint,Atoi,Itoa,FormatInt,Quote(ASCII)}, io.WriteString",
	"constraints over one 8-bit variable are decided by exact evaluation over its 256-value domain; everything else and every final path condition is decided by z3 4.8.12",
}
