package main

import "fmt"

func bound(f string, a ...interface{}) string { return fmt.Sprintf(f, a...) }

var stdAssumptions = []string{
	"go/packages + go/ssa v0.29.0 translate /repo's current sources faithfully (front end)",
	"symgo's semantics for the executed SSA instruction kinds and Go's run-time checks (every explored path is re-run natively on its solver model and must agree)",
	"std functions are modelled, not interpreted: errors.New, fmt.Sprintf (%s %d %c %v), strings.{HasPrefix,HasSuffix,Replace,SplitN,ToLower(ASCII),Repeat}, bytes.{Equal,HasPrefix,HasSuffix,Repeat}, strconv.{ParseInt,ParseUint,Atoi,Itoa,FormatInt,Quote(ASCII)}, io.WriteString",
	"any other exported function of strings, bytes, strconv, unicode, unicode/utf8, math/bits over strings, byte slices, integers and bools (none is called by the unchanged tree) is executed natively on concrete arguments; at most one symbolic byte in its arguments is concretised by forking over its feasible values, more end the path as inconclusive; sort.Slice/SliceStable/SliceIsSorted/Ints/Strings are modelled as an in-place stable insertion sort that calls the less closure through the interpreter; bytes.Buffer is interpreted from its SSA body",
	"constraints over one 8-bit variable are decided by exact evaluation over its 256-value domain; everything else and every final path condition is decided by z3 4.8.12",
}
