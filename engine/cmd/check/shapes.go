package main

import "verif/engine/interp"

// shortShapes: S0 (raw), S1 (open tags), S2 (lexical-mode prefixes) of DESIGN.md
// section 3 for one harness entry.
func shortShapes(entry string, K0, K1, K2 int, vers string, fuel int64, cover ...string) []JobNeed {
	var out []JobNeed
	add := func(tag, t string) {
		out = append(out, JobNeed{Job: jobTmpl(entry, tag, t, vers, fuel), Cover: cover})
	}
	add("S0", tmpl(tH('a', 0, K0)))
	for _, p := range []string{"<?php ", "<?", "<?="} {
		add("S1", tmpl(tC(p), tH('a', 0, K1)))
	}
	for _, p := range modePrefixes {
		add("S2", tmpl(tC(p), tH('a', 0, K2)))
	}
	return out
}

func shortBounds(K0, K1, K2 int, vers string) []string {
	return []string{
		bound("S0 raw input: every byte string of length 0..%d", K0),
		bound("S1 \"<?php \" / \"<?\" / \"<?=\" followed by every byte string of length 0..%d", K1),
		bound("S2 %d lexical-mode prefixes followed by every byte string of length 0..%d", len(modePrefixes), K2),
		"versions " + vers + " (one representative per behaviour class; class equivalence is C09's claim)",
	}
}

var _ = interp.OutOK
