package main

import (
	"strings"

	"verif/engine/interp"
)

// shortShapes: S0 (raw), S1 (open tags), S2 (lexical-mode prefixes) of DESIGN.md
// section 3 for one harness entry.
func shortShapes(entry string, K0, K1, K2 int, vers string, fuel int64, cover ...string) []JobNeed {
	var out []JobNeed
	add := func(tag, t string) {
		out = append(out, JobNeed{Job: jobTmpl(entry, tag, t, vers, fuel), Cover: cover})
	}
	add("S0", tmpl(tH('a', 0, K0)))
	for _, p := range []string{"<?php ", "<?", "<?=", "<?php"} {
		add("S1", tmpl(tC(p), tH('a', 0, K1)))
	}
	for _, p := range modePrefixes {
		add("S2", tmpl(tC(p), tH('a', 0, K2)))
	}
	for _, p := range phpPrefixes {
		add("S2", tmpl(tC(p), tH('a', 0, prefixK(K1))))
	}
	for _, p := range rawPrefixes {
		add("S2", tmpl(tC(p), tH('a', 0, prefixK(K1))))
	}
	// offsets inside strings: "$a[" sign, K2+1 arbitrary bytes, then the closing bracket and
	// quote (the string_var_index state skips bytes it has no rule for)
	for i, ps := range offsetShapes {
		k := K2
		if i == 0 {
			k = K2 + 1 // sign, skipped byte, two digits
		}
		add("S2", tmpl(tC(ps[0]), tH('a', 0, k), tC(ps[1])))
	}
	return out
}

// prefixK: the PHP-mode and HTML-mode prefixes multiply the ~30 behaviours per byte of the php
// state by their number (19): they stay at two free bytes in the thorough tier.
func prefixK(K1 int) int {
	if K1 > 2 {
		return 2
	}
	return K1
}

var offsetShapes = [][2]string{
	{"<?php \"$a[-", "]\";"},
	{"<?php \"$a[", "]\";"},
	{"<?php <<<A\n$a[-", "]\nA;\n"},
}

// longShapes (S9): concrete programs long enough to cross the 1024-entry blocks of
// the token and position pools several times.
func longShapes(entry string, fuel int64) []JobNeed {
	var out []JobNeed
	progs := []string{
		"<?php\n" + strings.Repeat("$a;\n", 400),
		"<?php\n" + strings.Repeat("f($a, [1, 'x' => $b->c]) /* c */ ;\n", 120),
		"<?php " + strings.Repeat("if ($a) { echo \"x $b[0] {$c->d}\"; } else { $e = <<<A\n  t $f\nA;\n }\n", 60),
		// two to three pieces of trivia in front of every token (1 440 pieces: block boundaries
		// of a trivia store fall inside one token's list)
		"<?php\n" + strings.Repeat("/*a*/ $a /*b*/\n# c\n = /*d*/ 1 // e\n ;\n", 120),
	}
	for _, ver := range []string{"7.4", "5.6"} {
		for _, p := range progs {
			j := jobTmpl(entry, "S9 long program", tmpl(tC(p)), ver, 40*fuel)
			j.Params["base"] = p
			j.Params["prev"] = 0
			j.Params["next"] = 0
			j.Params["ctx"] = ""
			out = append(out, JobNeed{Job: j})
		}
	}
	return out
}

const longBound = "S9: four concrete programs of 1 600 to 3 000 tokens (repeated statements; one with two to three pieces of trivia before every token) under 7.4 and 5.6 - they cross the 1024-entry pool blocks"

func shortBounds(K0, K1, K2 int, vers string) []string {
	return []string{
		bound("S0 raw input: every byte string of length 0..%d", K0),
		bound("S1 \"<?php \" / \"<?\" / \"<?=\" / \"<?php\" followed by every byte string of length 0..%d", K1),
		bound("S2 %d lexical-mode prefixes followed by every byte string of length 0..%d; %d PHP-mode (numbers, variables, names, brackets, close tag) and %d HTML-mode (shebang line, text before the open tag, close tag) prefixes followed by every byte string of length 0..%d (at most 2); %d string-offset shapes (\"$a[ / \"$a[- / heredoc $a[-, every byte string of length 0..%d (the first shape) / 0..%d, then ] and the closing quote or label)", len(modePrefixes), K2, len(phpPrefixes), len(rawPrefixes), K1, len(offsetShapes), K2+1, K2),
		"versions " + vers + " (one representative per behaviour class; class equivalence is C09's claim)",
	}
}

var _ = interp.OutOK
