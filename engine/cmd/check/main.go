package main

import (
	"encoding/json"
	"flag"
	"fmt"
	"os"
	"runtime/debug"
	"runtime/pprof"
	"sort"
	"strconv"
	"strings"
	"sync"
	"time"

	"verif/engine/interp"
)

type multiFlag []string

func (m *multiFlag) String() string     { return strings.Join(*m, ",") }
func (m *multiFlag) Set(s string) error { *m = append(*m, s); return nil }

func main() {
	// the interpreter allocates a map per frame: trade memory for fewer collections
	debug.SetGCPercent(400)
	if len(os.Args) < 2 {
		usage()
	}
	switch os.Args[1] {
	case "run":
		os.Exit(cmdRun(os.Args[2:]))
	default:
		os.Exit(cmdCheck(os.Args[1:]))
	}
}

func usage() {
	fmt.Fprintln(os.Stderr, "usage: check <property-id> [--tier quick|thorough] [--replay file]\n       check run -entry H -p k=v ... (development)")
	os.Exit(2)
}

func parseParams(ps []string) map[string]interface{} {
	m := map[string]interface{}{}
	for _, p := range ps {
		kv := strings.SplitN(p, "=", 2)
		if len(kv) != 2 {
			continue
		}
		if n, err := strconv.Atoi(kv[1]); err == nil {
			m[kv[0]] = n
		} else {
			s := kv[1]
			if u, err := strconv.Unquote(`"` + s + `"`); err == nil {
				s = u
			}
			m[kv[0]] = s
		}
	}
	return m
}

// cmdRun explores one harness entry and prints a summary (development aid).
func cmdRun(args []string) int {
	fs := flag.NewFlagSet("run", flag.ExitOnError)
	entry := fs.String("entry", "", "harness entry function")
	workers := fs.Int("workers", 16, "worker goroutines")
	var params, only multiFlag
	fs.Var(&params, "p", "parameter k=v")
	fs.Var(&only, "only", "harness file(s) to include")
	maxPaths := fs.Int64("max", 0, "max paths")
	fuel := fs.Int64("fuel", 0, "instruction budget per path")
	show := fs.Int("show", 5, "samples per outcome")
	native := fs.Bool("native", true, "replay natively")
	finalz3 := fs.Bool("finalz3", true, "confirm every path with the solver")
	z3all := fs.Bool("z3all", false, "re-check all domain decisions with z3")
	solver := fs.String("solver", "z3", "z3|z3-new|cvc5")
	nola := fs.Bool("nolookahead", false, "disable switch reconstruction")
	fs.Parse(args)
	gen, _, gerr := genWalkSource()
	if gerr != nil {
		fmt.Fprintln(os.Stderr, "ERROR:", gerr)
		return 2
	}
	r, err := NewRunner("run", map[string][]byte{repoDir + "/zz_verif_gen_walk.go": gen}, only, "*")
	if err != nil {
		fmt.Fprintln(os.Stderr, "ERROR:", err)
		return 2
	}
	defer r.Cleanup()
	r.Eng.Workers = *workers
	r.Eng.FinalZ3 = *finalz3
	r.Eng.Z3All = *z3all
	r.Eng.SolverCmd = *solver
	r.Eng.NoLookahead = *nola
	interp.LookaheadDebug = os.Getenv("VERIF_LADEBUG") != ""
	if os.Getenv("VERIF_FORKLOG") != "" {
		var mu sync.Mutex
		cnt := map[string]int{}
		interp.ForkLog = func(kind, site string) { mu.Lock(); cnt[kind+" "+site]++; mu.Unlock() }
		defer func() {
			for k, v := range cnt {
				fmt.Printf("FORK %6d %s\n", v, k)
			}
		}()
	}
	job := &interp.Job{Entry: *entry, Params: parseParams(params), MaxPaths: *maxPaths, Fuel: *fuel}
	var results []*interp.PathResult
	st := r.Eng.Explore(job, func(pr *interp.PathResult) {
		cp := *pr
		results = append(results, &cp)
	})
	fmt.Printf("load %.1fs explore %.1fs paths=%d forks=%d instrs=%d z3q=%d z3s=%.1f domq=%d oblig=%d/%d trunc=%v\n",
		r.LoadSecs, st.WallSeconds, st.Paths, st.Forks, st.Instrs, st.Z3Queries, st.Z3Seconds, st.DomQueries, st.Discharged, st.Obligations, st.Truncated)
	for _, k := range sortedKeys(st.ByOutcome) {
		fmt.Printf("  %-14s %d\n", k, st.ByOutcome[k])
	}
	shown := map[string]int{}
	sigs := map[string]int{}
	for _, pr := range results {
		key := pr.Outcome.String()
		if pr.Outcome == interp.OutPanic || pr.Outcome == interp.OutHang || pr.Outcome == interp.OutUnsupported || pr.Outcome == interp.OutEngineError {
			sigs[key+" "+pr.Site+" "+firstLine(pr.Msg)]++
		}
		for _, f := range pr.Failures {
			sigs["FAIL "+f.ID+" "+f.Site]++
		}
		if shown[key] < *show {
			shown[key]++
			fmt.Printf("[%s] %s %s obs=%v fail=%v w=%v\n", key, pr.Site, firstLine(pr.Msg), pr.Obs, pr.Failures, pr.Witness)
		}
	}
	var ks []string
	for k := range sigs {
		ks = append(ks, k)
	}
	sort.Strings(ks)
	for _, k := range ks {
		fmt.Printf("  SIG %6d  %s\n", sigs[k], k)
	}
	if *native {
		if err := r.BuildNative(); err != nil {
			fmt.Fprintln(os.Stderr, "ERROR:", err)
			return 2
		}
		var cases []NativeCase
		for id, pr := range results {
			if pr.Witness == nil {
				continue
			}
			cases = append(cases, NativeCase{ID: id, Entry: job.Entry, Params: job.Params, Witness: pr.Witness})
		}
		nres, err := r.Replay(cases, 16)
		if err != nil {
			fmt.Fprintln(os.Stderr, "ERROR:", err)
			return 2
		}
		bad := 0
		for _, c := range cases {
			ok, why := agree(results[c.ID], nres[c.ID])
			if !ok {
				bad++
				if bad <= 10 {
					fmt.Printf("MISMATCH id=%d %s w=%v obs=%v\n", c.ID, why, c.Witness, results[c.ID].Obs)
				}
			}
		}
		fmt.Printf("native build %.1fs; replayed %d, mismatches %d\n", r.BuildSecs, len(cases), bad)
	}
	return 0
}

func firstLine(s string) string {
	if i := strings.IndexByte(s, '\n'); i >= 0 {
		return s[:i]
	}
	return s
}

type propImpl struct {
	files []string // harness files (rt.go and the generated walker are always included)
	run   func(c *Check) error
	level string
	// fallback: what is left of the check when the package-internal accessors listed in
	// skipHooks no longer compile against /repo (a change renamed the unexported state they
	// read): the harness files that need none of them, and the reduced driver
	hooks         []string // accessor directories under harness/pkg that the files need
	fallbackFiles []string
	fallbackRun   func(c *Check) error
}

var props = map[string]*propImpl{}

// thoroughReady: the checks whose thorough-tier bounds were run clean on the unchanged tree
// (tools/thorough.sh; durations in DESIGN.md 10.5c). For the others "--tier thorough" explores
// the quick-tier bounds: a bound that was never run to the end is not registered.
var thoroughReady = map[string]bool{
	"C18": true, // 8 s
	"C14": true, // 168 s (full product of imports x namespace forms x positions x name forms)
	"C15": true, // 17 s
	"C16": true, // 31 s
	"C09": true, // 471 s (K=3, KR=2, KH=3 for the heredoc prefixes)
}

// reducedRun: the accessors into unexported state did not compile; drivers skip the jobs that need them.
var reducedRun bool

func cmdCheck(args []string) int {
	id := args[0]
	fs := flag.NewFlagSet("check", flag.ExitOnError)
	tier := fs.String("tier", "", "quick|thorough")
	replay := fs.String("replay", "", "replay file")
	workers := fs.Int("workers", 16, "workers")
	fs.Parse(args[1:])
	if *tier == "" {
		*tier = os.Getenv("VERIF_TIER")
	}
	if *tier == "" {
		*tier = "quick"
	}
	var seed int64
	if s := os.Getenv("VERIF_SEED"); s != "" {
		seed, _ = strconv.ParseInt(s, 10, 64)
	}
	if pf := os.Getenv("VERIF_PPROF"); pf != "" {
		f, err := os.Create(pf)
		if err == nil {
			pprof.StartCPUProfile(f)
			defer pprof.StopCPUProfile()
			go func() {
				time.Sleep(90 * time.Second)
				pprof.StopCPUProfile()
				f.Close()
				os.Exit(3)
			}()
		}
	}
	p := props[id]
	if p == nil {
		fmt.Fprintf(os.Stderr, "unknown property %s\n", id)
		return 2
	}
	gen, _, err := genWalkSource()
	if err != nil {
		fmt.Fprintln(os.Stderr, "ERROR: generating the walker:", err)
		return 2
	}
	generated := map[string][]byte{repoDir + "/zz_verif_gen_walk.go": gen}
	r, err := NewRunner(id, generated, p.files, p.hooks...)
	run := p.run
	reducedRun = false
	if err != nil && p.fallbackRun != nil {
		fmt.Println("NOTE: the package-internal accessors do not compile against the current tree:", firstLine(err.Error()))
		fmt.Println("NOTE: running the part of the check that uses the public API only; the claims that need the accessors are not decided on this tree")
		r, err = NewRunner(id, generated, p.fallbackFiles)
		run = p.fallbackRun
		reducedRun = true
	}
	if err != nil {
		fmt.Println("ERROR: cannot load /repo with the harness:", err)
		return 2
	}
	defer r.Cleanup()
	if err := r.BuildNative(); err != nil {
		fmt.Println("ERROR:", err)
		return 2
	}
	if *replay != "" {
		return doReplay(r, *replay)
	}
	requested := *tier
	if *tier == "thorough" && !thoroughReady[id] && os.Getenv("VERIF_FORCE_THOROUGH") == "" {
		// see thoroughReady
		*tier = "quick"
	}
	c := newCheck(id, *tier, seed)
	c.ReportTier = requested
	if requested != *tier {
		fmt.Printf("NOTE: the deeper bounds of %s were not run to completion on the unchanged tree in the time available; the thorough tier of this check explores the quick-tier bounds\n", id)
		c.Bounds = append(c.Bounds, "thorough tier = quick-tier bounds for this check: only bounds that ran clean on the unchanged tree are registered (DESIGN.md 10.5c)")
	}
	c.R = r
	c.Workers = *workers
	r.Eng.Workers = *workers
	r.Eng.Seed = seed
	r.Eng.NoLookahead = os.Getenv("VERIF_NOLOOKAHEAD") != ""
	if p.level != "" {
		c.Level = p.level
	}
	c.Known, err = loadKnown()
	if err != nil {
		fmt.Println("ERROR:", err)
		return 2
	}
	if err := run(c); err != nil {
		fmt.Println("ERROR:", err)
		return 2
	}
	if err := c.Validate(); err != nil {
		fmt.Println("ERROR:", err)
		return 2
	}
	return c.Finish()
}

// doReplay runs a recorded counterexample against the natively compiled code.
func doReplay(r *Runner, path string) int {
	b, err := os.ReadFile(path)
	if err != nil {
		fmt.Println("ERROR:", err)
		return 2
	}
	var rf ReplayFile
	if err := json.Unmarshal(b, &rf); err != nil {
		fmt.Println("ERROR:", err)
		return 2
	}
	res, err := r.Replay([]NativeCase{{ID: 0, Entry: rf.Entry, Params: rf.Params, Witness: rf.Witness}}, 1)
	if err != nil || res[0] == nil {
		fmt.Println("ERROR: replay failed:", err)
		return 2
	}
	nr := res[0]
	fmt.Printf("replay of %s\n  input: %s\n  native outcome: %s %s\n  failed assertions: %v\n", rf.Signature, rf.Input, nr.Outcome, nr.Msg, nr.Failures)
	reproduced := false
	switch rf.Kind {
	case "panic":
		reproduced = nr.Outcome == "panic" || nr.Outcome == "crash"
	case "hang":
		reproduced = nr.Outcome == "hang" || nr.Outcome == "crash"
	case "assert":
		for _, f := range nr.Failures {
			if f == rf.AssertID {
				reproduced = true
			}
		}
	}
	if reproduced {
		fmt.Printf("VIOLATION property=%s replay=%s\n", rf.Property, path)
		return 1
	}
	fmt.Println("not reproduced on the current tree")
	return 0
}
