package main

// C07: recovery templates (a malformed statement at every boundary of a statement list
// in five contexts) and the print-only-source oracle on every tree returned with errors.

import (
	"strings"

	"verif/engine/interp"
)

func init() {
	props["C07"] = &propImpl{files: []string{"h_lib.go", "h_pipe.go", "h_c07.go"}, run: runC07}
}

type c07Ctx struct {
	name, open, close, trailer string
}

var c07Contexts = []c07Ctx{
	{"top", "", "", ""},
	{"block", "if ($c) { ", " }", " echo 9;"},
	{"func", "function f() { ", " }", " echo 9;"},
	{"nested", "while ($c) { if ($d) { ", " } }", " echo 9;"},
	{"method", "class C { function m() { ", " } }", " echo 9;"},
	{"namespace", "namespace N { ", " }", " namespace M { echo 9; }"},
	{"closure", "$f = function () { ", " };", " echo 9;"},
	{"altif", "if ($c): ", " endif;", " echo 9;"},
}

// well-formed statements that may precede the malformed one (lexer modes, brackets,
// nested lists, heredoc)
var c07Statements = []string{
	"$a = 1;",
	"echo \"a {$b} c\";",
	"f($x, [1, 2]);",
	"if ($a) { g(); }",
	"$s = \"x$y[0] ${z}\";",
	"$h = <<<A\n t $u\nA;\n",
	"foreach ($a as $k => $v) { h($k); }",
	"$o->p(1)->q[2]++;",
	"$t = `ls $d`;",
	"switch ($a) { case 1: break; }",
	"?>h<?php ",
	"{ $n = 2; }",
}

// malformed statements: the first token cannot continue the preceding statement and
// the statement cannot be completed. onlyTop: would close the enclosing block elsewhere.
type c07Breaker struct {
	text    segs
	name    string
	onlyTop bool
}

func c07Breakers() []c07Breaker {
	V := func() segs { return segs{tC("$"), tH('z', 1, 1), tH('l', 1, 1)} }
	return []c07Breaker{
		{cat(V(), " = ;"), "$v = ;", false},
		{cat("f( ;"), "f( ;", false},
		{cat("] ;"), "] ;", false},
		{cat("1 2;"), "1 2;", false},
		{cat(") ;"), ") ;", false},
		{cat(V(), " ", V(), ";"), "$v $w;", false},
		{cat("echo ;"), "echo ;", false},
		{cat("= 1;"), "= 1;", false},
		{cat("new ;"), "new ;", false},
		{cat("if ( ;"), "if ( ;", false},
		{cat(V(), "-> ;"), "$v-> ;", false},
		{cat("}"), "stray }", true},
		{cat(")"), "stray )", false},
		{cat("foreach (", V(), " as ) { }"), "foreach ($v as ) { }", false},
		{cat("function (", " { }"), "function ( { }", false},
	}
}

func runC07(c *Check) error {
	c.Assumptions = append(c.Assumptions, stdAssumptions...)
	c.Assumptions = append(c.Assumptions,
		"'the statement it is in' = the innermost element of a statement list whose grammar has an error production (top-level and inner statement lists); class bodies have none, so a malformed class member costs the class statement and is not part of the claim",
		"'parsing continues after it' is checked as: the statement written last in the same list (two well-formed statements follow the malformed one) is the last element of that list, and the statement after the enclosing construct is the last top-level statement")
	thorough := c.Tier == "thorough"
	fuel := int64(6_000_000)
	var needs []JobNeed
	nt := 0
	brs := c07Breakers()
	for ci, cx := range c07Contexts {
		for bi, br := range brs {
			if br.onlyTop && cx.name != "top" {
				continue
			}
			for si := range c07Statements {
				// quick: each (context, breaker) with three rotating preceding statements;
				// thorough: every preceding statement
				if !thorough && (si+bi+ci)%4 != 0 {
					continue
				}
				for _, ver := range []string{"7.4", "5.6"} {
					if cx.name == "method" && c07Statements[si] == "?>h<?php " {
						continue
					}
					pre := []string{c07Statements[si], c07Statements[(si+5)%len(c07Statements)]}
					if pre[1] == "?>h<?php " && cx.name == "method" {
						pre[1] = "$a = 1;"
					}
					preText := strings.Join(pre, " ")
					after := " $m = 3; echo 4;"
					t := cat("<?php "+cx.open+preText+" ", segs{tH('s', 0, 1)}, br.text, after+cx.close+cx.trailer)
					j := jobTmpl("H_C07_Recover", "recovery", tmpl(t...), ver, fuel)
					j.Params["ctx"] = cx.name
					j.Params["npre"] = len(pre)
					j.Params["prefix"] = "<?php " + cx.open + preText + cx.close + cx.trailer
					j.Params["last"] = "<?php " + cx.open + "echo 4;" + cx.close + cx.trailer
					j.Params["what"] = br.name + " in " + cx.name + " list"
					needs = append(needs, JobNeed{Job: j, Cover: []string{"recovered"}})
					nt++
				}
			}
		}
	}
	c.ExploreNeeds(needs, nil)
	c.Extra["recovery_templates"] = nt
	// printing half: every tree returned with errors
	K0, K1, K2, vers := pipeTier(c)
	c.ExploreNeeds(shortShapes("H_C07_Print", K0, K1, K2, vers, 900_000), nil)
	every := tierEvery(c, 30, 10)
	for _, ver := range []string{"7.4", "5.6"} {
		whole, err := c.wholeJobs("H_C07_Print", ver, 3_000_000, false)
		if err != nil {
			return err
		}
		c.ExploreNeeds(whole, nil)
		win, err := c.windowJobs("H_C07_Print", ver, every, 3_000_000, 120, true)
		if err != nil {
			return err
		}
		c.ExploreNeeds(win, nil)
	}
	var bn []string
	for _, b := range brs {
		bn = append(bn, b.name)
	}
	c.Extra["malformed_statements"] = bn
	c.Bounds = append(c.Bounds,
		bound("recovery: %d malformed statements (variable names symbolic, 0..1 symbolic blank before them) x 8 list contexts (top level, block, function body, nested block, method body, braced namespace body, closure body, alternative-syntax if body) x preceding statements drawn from %d forms (strings with interpolation, heredoc, backquote, nested blocks, inline HTML), followed by two well-formed statements; versions 7.4 and 5.6", len(brs), len(c07Statements)),
		"printing: every tree returned with errors on the short shapes below, on every corpus program and on the test snippets with one arbitrary byte inserted, replaced or deleted at every "+bound("%d", every)+"-th offset")
	c.Bounds = append(c.Bounds, shortBounds(K0, K1, K2, vers)...)
	_ = interp.OutOK
	return nil
}
