package main

func init() {
	props["C05"] = &propImpl{files: []string{"h_lib.go", "h_pipe.go", "h_corpus.go", "h_units.go"}, run: runC05,
		fallbackFiles: []string{"h_lib.go", "h_pipe.go", "h_corpus.go"}, hooks: []string{"internal/scanner", "internal/position", "pkg/token", "pkg/position"}, fallbackRun: runC05}
	props["C08"] = &propImpl{files: []string{"h_lib.go", "h_pipe.go", "h_corpus.go"}, run: runC08}
	props["C10"] = &propImpl{files: []string{"h_lib.go", "h_pipe.go", "h_corpus.go"}, run: runC10}
}

func tierEvery(c *Check, quick, thorough int) int {
	if c.Tier == "thorough" {
		return thorough
	}
	return quick
}

func runC05(c *Check) error {
	c.Assumptions = append(c.Assumptions, stdAssumptions...)
	c.TriviaEmpty = true
	unitJobsC05(c)
	every := tierEvery(c, 4, 2)
	rich := c.Tier == "thorough"
	for _, ver := range []string{"7.4", "5.6"} {
		needs, err := c.wholeJobs("H_C05", ver, 3_000_000, true)
		if err != nil {
			return err
		}
		c.ExploreNeeds(needs, nil)
		needs, err = c.triviaJobs("H_C05", ver, every, rich, 3_000_000, "")
		if err != nil {
			return err
		}
		c.ExploreNeeds(needs, nil)
		needs, err = c.lexemeJobs("H_C05", ver, every, 3_000_000)
		if err != nil {
			return err
		}
		c.ExploreNeeds(needs, nil)
	}
	c.ExploreNeeds(longShapes("H_C05", 3_000_000), nil)
	c.Bounds = append(c.Bounds, longBound,
		"program shapes: the committed corpus (snippets of the repository's own tests + test.php lines + grammar sentences) under 7.4 and 5.6",
		bound("S4: every %d-th inter-token gap of every snippet replaced by symbolic trivia (white space 1..2 bytes of every newline style, /*..*/, #..\\n%s)", every, map[bool]string{true: ", //..\\r\\n, /** */, 3-byte white space", false: ""}[rich]),
		bound("S5: in every %d-th name, variable, integer, string body and inline-HTML token (by token context) one byte is symbolic within its lexical class (line terminators inside string bodies and HTML included), and a backslash followed by an arbitrary byte is inserted at the start of quoted string bodies", every),
		"positions are concrete on each path; the solver enumerates the trivia variants around each shape")
	return nil
}

func runC08(c *Check) error {
	c.Assumptions = append(c.Assumptions, stdAssumptions...)
	every := tierEvery(c, 4, 2)
	rich := c.Tier == "thorough"
	for _, ver := range []string{"7.4", "5.6"} {
		needs, err := c.triviaJobs("H_C08", ver, every, rich, 3_000_000, "")
		if err != nil {
			return err
		}
		c.ExploreNeeds(needs, nil)
	}
	c.Bounds = append(c.Bounds,
		"program shapes: the committed corpus under 7.4 and 5.6; baseline = the snippet as written",
		bound("every %d-th inter-token gap (PHP mode, outside strings/heredocs/inline HTML, not directly after a heredoc label) replaced by symbolic trivia: white space 1..2 bytes over [ \\t\\n\\r\\v\\f], /* 0..2 bytes */, # 0..1 byte \\n%s; one gap at a time", every, map[bool]string{true: ", // 0..1 byte \\r\\n, /** ws byte */ ws, ws /* any byte */ ws, 3 white-space bytes", false: ""}[rich]),
		"a comment is separated by a space from a preceding '/', '*' or '<' so that no different lexeme is formed (admissibility)")
	return nil
}

func runC10(c *Check) error {
	c.Assumptions = append(c.Assumptions, stdAssumptions...)
	every := tierEvery(c, 4, 2)
	rich := c.Tier == "thorough"
	needs, err := c.wholeJobs("H_C10", "5.6", 3_000_000, false)
	if err != nil {
		return err
	}
	c.ExploreNeeds(needs, nil)
	needs, err = c.triviaJobs("H_C10", "5.6", every, rich, 3_000_000, "")
	if err != nil {
		return err
	}
	c.ExploreNeeds(needs, nil)
	K1, K2 := 2, 2
	if c.Tier == "thorough" {
		K1, K2 = 3, 3
	}
	c.ExploreNeeds(shortShapes("H_C10", K1+1, K1, K2, "5.6", 3_000_000), nil)
	c.Bounds = append(c.Bounds,
		"every corpus snippet as written and with symbolic trivia in every "+bound("%d", every)+"-th gap, parsed under 5.6 and 7.2 on the same path; compared when both report no error and the token stream contains none of: variable-variables, static/dynamic member chains, new with a member chain, yield, empty list()",
		bound("short inputs: raw 0..%d bytes, open tags + 0..%d bytes, lexical-mode prefixes + 0..%d bytes", K1+1, K1, K2))
	return nil
}
