package main

import "verif/engine/interp"

func init() {
	props["C18"] = &propImpl{files: []string{"h_c18.go", "h_c18twin.go"}, run: runC18,
		fallbackFiles: []string{"h_c18twin.go"}, hooks: []string{"internal/scanner", "internal/position", "pkg/token", "pkg/position"}, fallbackRun: runC18Twin}
}

func runC18(c *Check) error {
	c.Bounds = append(c.Bounds,
		"inductive step of (*token.Pool).Get and (*position.Pool).Get: block length L and offset off are unconstrained 64-bit values with L >= 1, 0 <= off <= L; the earlier pointer is &block[j] for every 0 <= j < off, or any element of an older block",
		"base case NewPool(n) for every 1 <= n <= 2^40 (upper limit only so that make() is defined)",
		"no bound on the number of requests: the invariant is re-established by every step; integer arithmetic is 64-bit wrap-around",
		"concrete twin: L in {1,2,3} (thorough: up to 33), 16L+1 requests (at most 150: 16 block boundaries for small L) with writes through every pointer")
	c.Assumptions = append(c.Assumptions, stdAssumptions...)
	c.Assumptions = append(c.Assumptions,
		"two different make() results never overlap and distinct elements of one array do not overlap (Go memory model) - this turns 'distinct pointers' into 'writing through one never changes another'",
		"pool blocks of symbolic length are abstract arrays: element addresses are (allocation, index) pairs, loads/stores through them are outside the model (Get performs none)")
	// maxL = 0: all 64-bit sizes (witnesses cannot be allocated natively, so no replay);
	// maxL = 2048: the same harness restricted to sizes the native replayer can build,
	// every witness replayed (validates the engine's treatment of the same code).
	var proof []*interp.Job
	for _, maxL := range []int{0, 2048} {
		for _, e := range []string{"H_C18_TokStep", "H_C18_PosStep"} {
			for g := 0; g <= 2; g++ {
				j := &interp.Job{Entry: e, Tag: "step", NoReplay: maxL == 0, Params: map[string]interface{}{"ghost": g, "maxL": maxL}}
				c.ExploreNeed(j, "after-get")
				if maxL == 0 {
					proof = append(proof, j)
				}
			}
		}
		j := &interp.Job{Entry: "H_C18_Base", Tag: "base", NoReplay: maxL == 0, Params: map[string]interface{}{"maxL": maxL}}
		c.ExploreNeed(j, "base")
		if maxL == 0 {
			proof = append(proof, j)
		}
	}
	c.CrossSolvers(proof)
	c.ExploreNeed(&interp.Job{Entry: "H_C18_Sizes", Tag: "sizes", Params: map[string]interface{}{}}, "sizes")
	return runC18TwinJobs(c)
}

// runC18Twin: the public-API part alone (see propImpl.fallbackRun).
func runC18Twin(c *Check) error {
	c.Bounds = append(c.Bounds, "REDUCED: the pools' unexported fields are not the ones the accessors expect, the inductive step could not be set up on this tree; only the concrete twin (public API) is decided")
	c.Assumptions = append(c.Assumptions, stdAssumptions...)
	return runC18TwinJobs(c)
}

func runC18TwinJobs(c *Check) error {
	Ls := []int{1, 2, 3}
	if c.Tier == "thorough" {
		Ls = []int{1, 2, 3, 4, 5, 7, 8, 16, 33}
	}
	for _, L := range Ls {
		n := 16*L + 1 // 16 block boundaries
		if n > 150 {
			n = 150
		}
		c.ExploreNeed(&interp.Job{Entry: "H_C18_Twin", Tag: "twin", Params: map[string]interface{}{"L": L, "n": n}}, "twin")
	}
	return nil
}
