package main

import "verif/engine/interp"

// Unit obligations on the integer kernels under C04 (line table) and C05 (position
// combinators): every integer is an unconstrained 64-bit value, only table/list sizes are
// bounded.
func unitJobsC04(c *Check) {
	if reducedRun {
		c.Bounds = append(c.Bounds, "REDUCED: the NewLines accessor does not compile against this tree; the unit obligations are not decided")
		return
	}
	N := 5
	if c.Tier == "thorough" {
		N = 8
	}
	var proof []*interp.Job
	for n := 0; n <= N; n++ {
		j1 := &interp.Job{Entry: "H_Unit_GetLine", Tag: "unit-newlines", Params: map[string]interface{}{"n": n}}
		j2 := &interp.Job{Entry: "H_Unit_Append", Tag: "unit-newlines", Params: map[string]interface{}{"n": n}}
		c.ExploreNeed(j1, "getline")
		c.ExploreNeed(j2, "append")
		if n <= 3 {
			proof = append(proof, j1, j2)
		}
	}
	c.CrossSolvers(proof)
	c.Bounds = append(c.Bounds, bound("unit: NewLines.GetLine / Append on every strictly increasing table of 0..%d entries with unconstrained 64-bit entries and offset (GetLine = 1 + number of entries <= p, monotone; Append keeps the table sorted, complete and is idempotent)", N))
}

func unitJobsC05(c *Check) {
	if reducedRun {
		c.Bounds = append(c.Bounds, "REDUCED: the accessors do not compile against this tree; the unit obligations are not decided")
		return
	}
	// which -> (forms of first argument, forms of last argument); 1 = not applicable
	nodeF, listF := 3, 4
	if c.Tier == "thorough" {
		listF = 5
	}
	forms := map[int][2]int{0: {listF, 1}, 1: {nodeF, 1}, 2: {1, 1}, 3: {1, 1}, 4: {1, nodeF}, 5: {nodeF, 1}, 6: {nodeF, nodeF},
		7: {listF, 1}, 8: {1, listF}, 9: {nodeF, listF}, 10: {listF, nodeF}, 11: {listF, 1}}
	var proof []*interp.Job
	for w := 0; w < 12; w++ {
		f := forms[w]
		for a := 0; a < f[0]; a++ {
			for b := 0; b < f[1]; b++ {
				j := &interp.Job{Entry: "H_Unit_Builder", Tag: "unit-position-builder", Params: map[string]interface{}{"which": w, "fa": a, "fb": b}}
				c.ExploreNeed(j, "combinator")
				if a == f[0]-1 && b == f[1]-1 {
					proof = append(proof, j)
				}
			}
		}
	}
	c.CrossSolvers(proof)
	c.Bounds = append(c.Bounds, bound("unit: the 12 New*Position combinators of internal/position with unconstrained 64-bit offsets and lines in every argument; node arguments nil / without position / with position; list arguments nil / empty / 1..%d elements (start from the first argument, end from the last, -1 for absent boundaries)", listF-2))
}
