package interp

// Generic fallback for std functions that have no term-building model (external.go): the
// real function is called natively (reflect) on concrete arguments.
//
// When the string / byte-slice arguments contain symbolic bytes that all depend on ONE 8-bit
// variable constrained only through its domain, the function is evaluated natively for every
// value of the domain and the domain is split into the classes that give the same result
// (finite-domain evaluation, as for branch conditions and table indices): the path forks once
// per class, the variable stays symbolic inside its class and the result is the class's
// common result. A string result that is, for every value of the class, the same part of the
// same argument is returned as that part (still symbolic). Symbolic scalars, and anything that
// does not fit (two variables, a variable that also occurs in solver constraints) is
// concretised when there is at most one symbolic byte, otherwise the path ends as unsupported
// (inconclusive, counted, never "held").
// Byte-slice results that alias an argument keep that aliasing.

import (
	"fmt"
	"reflect"
)

const maxNativeSymBytes = 1

var errorType = reflect.TypeOf((*error)(nil)).Elem()

func makeNative(name string, f interface{}) externalFn {
	fv := reflect.ValueOf(f)
	ft := fv.Type()
	return func(fr *frame, args []value) value {
		if len(args) != ft.NumIn() {
			panic(unsupported("native call of " + name + ": arity"))
		}
		nsym := 0
		for _, a := range args {
			switch a := a.(type) {
			case symstr:
				for _, b := range a {
					if _, ok := b.(sym); ok {
						nsym++
					}
				}
			case []value:
				for _, b := range a {
					if _, ok := b.(sym); ok {
						nsym++
					}
				}
			}
		}
		if nsym > 0 {
			if r, ok := nativeByClasses(fr, name, fv, ft, args); ok {
				return r
			}
		}
		if nsym > maxNativeSymBytes {
			panic(unsupported(fmt.Sprintf("call of %s (no model) with %d symbolic bytes in its arguments", name, nsym)))
		}
		in := make([]reflect.Value, len(args))
		type sliceArg struct {
			native []byte
			orig   []value
		}
		var slices []sliceArg
		concByte := func(b value) byte {
			switch b := b.(type) {
			case byte:
				return b
			case sym:
				return byte(fr.path().concretize(fr, b))
			}
			panic(unsupported("native call of " + name + ": element " + fmt.Sprintf("%T", b)))
		}
		for k, a := range args {
			pt := ft.In(k)
			switch pt.Kind() {
			case reflect.String:
				switch a := a.(type) {
				case string:
					in[k] = reflect.ValueOf(a).Convert(pt)
				case symstr:
					bs := make([]byte, len(a))
					for i, b := range a {
						bs[i] = concByte(b)
					}
					in[k] = reflect.ValueOf(string(bs)).Convert(pt)
				default:
					panic(unsupported("native call of " + name + ": string argument " + fmt.Sprintf("%T", a)))
				}
			case reflect.Slice:
				switch {
				case pt.Elem().Kind() == reflect.Uint8:
					av, ok := a.([]value)
					if !ok && a != nil {
						panic(unsupported("native call of " + name + ": slice argument " + fmt.Sprintf("%T", a)))
					}
					var bs []byte
					if av != nil {
						bs = make([]byte, len(av), len(av)+1)
						for i, b := range av {
							bs[i] = concByte(b)
						}
					}
					slices = append(slices, sliceArg{bs, av})
					in[k] = reflect.ValueOf(bs).Convert(pt)
				case pt.Elem().Kind() == reflect.String:
					av, _ := a.([]value)
					ss := make([]string, len(av))
					for i, e := range av {
						s, ok := e.(string)
						if !ok {
							panic(unsupported("native call of " + name + ": symbolic string in a slice"))
						}
						ss[i] = s
					}
					in[k] = reflect.ValueOf(ss).Convert(pt)
				default:
					panic(unsupported("native call of " + name + ": slice parameter"))
				}
			case reflect.Bool:
				switch a := a.(type) {
				case bool:
					in[k] = reflect.ValueOf(a).Convert(pt)
				case sym:
					in[k] = reflect.ValueOf(fr.path().concretize(fr, a) != 0).Convert(pt)
				default:
					panic(unsupported("native call of " + name + ": bool argument"))
				}
			case reflect.Int, reflect.Int8, reflect.Int16, reflect.Int32, reflect.Int64,
				reflect.Uint, reflect.Uint8, reflect.Uint16, reflect.Uint32, reflect.Uint64, reflect.Uintptr:
				var n int64
				if s, ok := a.(sym); ok {
					n = fr.path().concretize(fr, s)
				} else {
					n = asInt64(a)
				}
				v := reflect.New(pt).Elem()
				if pt.Kind() >= reflect.Uint && pt.Kind() <= reflect.Uintptr {
					v.SetUint(uint64(n))
				} else {
					v.SetInt(n)
				}
				in[k] = v
			case reflect.Float32, reflect.Float64:
				v := reflect.New(pt).Elem()
				switch a := a.(type) {
				case float64:
					v.SetFloat(a)
				case float32:
					v.SetFloat(float64(a))
				default:
					panic(unsupported("native call of " + name + ": float argument"))
				}
				in[k] = v
			default:
				panic(unsupported("native call of " + name + ": parameter kind " + pt.Kind().String()))
			}
		}
		var out []reflect.Value
		func() {
			defer func() {
				if r := recover(); r != nil {
					// the real function panicked (e.g. strings.Repeat with a negative count)
					panic(targetPanic{v: fr.errValue(fmt.Sprint(r))})
				}
			}()
			out = fv.Call(in)
		}()
		conv := func(rv reflect.Value) value {
			rt := rv.Type()
			switch {
			case rt == errorType || rt.Implements(errorType) && rt.Kind() == reflect.Interface:
				if rv.IsNil() {
					return iface{}
				}
				return fr.errValue(rv.Interface().(error).Error())
			case rt.Kind() == reflect.String:
				return rv.String()
			case rt.Kind() == reflect.Slice && rt.Elem().Kind() == reflect.Uint8:
				if rv.IsNil() {
					return []value(nil)
				}
				rb := rv.Bytes()
				// does the result alias an argument? then it is the same part of the original
				if cap(rb) > 0 {
					rp := reflect.ValueOf(rb[:1]).Pointer()
					for _, sa := range slices {
						if cap(sa.native) == 0 {
							continue
						}
						base := reflect.ValueOf(sa.native[:1]).Pointer()
						if rp >= base && rp < base+uintptr(cap(sa.native)) {
							off := int(rp - base)
							if off+len(rb) <= len(sa.orig) {
								return sa.orig[off : off+len(rb) : off+len(rb)]
							}
						}
					}
				}
				r := make([]value, len(rb))
				for i, b := range rb {
					r[i] = b
				}
				return r
			case rt.Kind() == reflect.Slice && rt.Elem().Kind() == reflect.String:
				if rv.IsNil() {
					return []value(nil)
				}
				r := make([]value, rv.Len())
				for i := range r {
					r[i] = rv.Index(i).String()
				}
				return r
			case rt.Kind() == reflect.Slice && rt.Elem().Kind() == reflect.Slice && rt.Elem().Elem().Kind() == reflect.Uint8:
				panic(unsupported("native call of " + name + ": [][]byte result"))
			}
			switch rt.Kind() {
			case reflect.Bool:
				return rv.Bool()
			case reflect.Int:
				return int(rv.Int())
			case reflect.Int8:
				return int8(rv.Int())
			case reflect.Int16:
				return int16(rv.Int())
			case reflect.Int32:
				return int32(rv.Int())
			case reflect.Int64:
				return rv.Int()
			case reflect.Uint:
				return uint(rv.Uint())
			case reflect.Uint8:
				return uint8(rv.Uint())
			case reflect.Uint16:
				return uint16(rv.Uint())
			case reflect.Uint32:
				return uint32(rv.Uint())
			case reflect.Uint64:
				return rv.Uint()
			case reflect.Uintptr:
				return uintptr(rv.Uint())
			case reflect.Float64:
				return rv.Float()
			case reflect.Float32:
				return float32(rv.Float())
			}
			panic(unsupported("native call of " + name + ": result kind " + rt.Kind().String()))
		}
		switch len(out) {
		case 0:
			return nil
		case 1:
			return conv(out[0])
		}
		t := make(tuple, len(out))
		for k, o := range out {
			t[k] = conv(o)
		}
		return t
	}
}

// nativeByClasses: see the comment at the top of this file. ok = false: not applicable.
func nativeByClasses(fr *frame, name string, fv reflect.Value, ft reflect.Type, args []value) (res value, ok bool) {
	ps := fr.path()
	if ps.spec {
		panic(specAbort{})
	}
	// all symbolic bytes must be terms over one pure 8-bit variable; scalars must be concrete
	var vids []int
	note := func(b value) bool {
		sy, isSym := b.(sym)
		if !isSym {
			_, isByte := b.(byte)
			return isByte
		}
		if sy.t.sv < 0 || ps.vars[sy.t.sv].w != 8 || !ps.vars[sy.t.sv].pure() {
			return false
		}
		for _, id := range vids {
			if id == int(sy.t.sv) {
				return true
			}
		}
		vids = append(vids, int(sy.t.sv))
		return len(vids) <= 2
	}
	for k, a := range args {
		switch a := a.(type) {
		case symstr:
			for _, b := range a {
				if !note(b) {
					return nil, false
				}
			}
		case []value:
			if ft.In(k).Kind() != reflect.Slice || ft.In(k).Elem().Kind() != reflect.Uint8 {
				return nil, false
			}
			for _, b := range a {
				if !note(b) {
					return nil, false
				}
			}
		case sym:
			return nil, false
		}
	}
	if len(vids) == 0 {
		return nil, false
	}
	cur := map[int]uint64{} // variable id -> value used by evalAt
	// replaying a recorded decision: narrow the domain, evaluate for the representative
	type outcome struct {
		key string
		res value
	}
	evalAt := func() (o outcome) {
		in := make([]reflect.Value, len(args))
		type sliceArg struct {
			native []byte
			orig   []value
		}
		var slices []sliceArg
		var strs [][]byte  // concrete content of the string arguments (nil for others)
		var strv [][]value // their symbolic content
		cb := func(b value) byte {
			if sy, ok := b.(sym); ok {
				return byte(ps.ev.evalSingle(sy.t, cur[int(sy.t.sv)]))
			}
			return b.(byte)
		}
		for k, a := range args {
			pt := ft.In(k)
			strs = append(strs, nil)
			strv = append(strv, nil)
			switch pt.Kind() {
			case reflect.String:
				seq, isStr := strBytes(a)
				if !isStr {
					panic(unsupported("native call of " + name + ": string argument"))
				}
				bs := make([]byte, len(seq))
				for i, b := range seq {
					bs[i] = cb(b)
				}
				strs[k], strv[k] = bs, seq
				in[k] = reflect.ValueOf(string(bs)).Convert(pt)
			case reflect.Slice:
				if pt.Elem().Kind() == reflect.String {
					av, _ := a.([]value)
					ss := make([]string, len(av))
					for i, e := range av {
						s, ok := e.(string)
						if !ok {
							panic(unsupported("native call of " + name + ": symbolic string in a slice"))
						}
						ss[i] = s
					}
					in[k] = reflect.ValueOf(ss).Convert(pt)
					break
				}
				av, _ := a.([]value)
				var bs []byte
				if av != nil {
					bs = make([]byte, len(av), len(av)+1)
					for i, b := range av {
						bs[i] = cb(b)
					}
				}
				slices = append(slices, sliceArg{bs, av})
				in[k] = reflect.ValueOf(bs).Convert(pt)
			case reflect.Bool:
				in[k] = reflect.ValueOf(a.(bool)).Convert(pt)
			case reflect.Float32, reflect.Float64:
				panic(unsupported("native call of " + name + ": float argument next to symbolic bytes"))
			default:
				vv := reflect.New(pt).Elem()
				if pt.Kind() >= reflect.Uint && pt.Kind() <= reflect.Uintptr {
					vv.SetUint(uint64(asInt64(a)))
				} else {
					vv.SetInt(asInt64(a))
				}
				in[k] = vv
			}
		}
		var out []reflect.Value
		panicked := ""
		func() {
			defer func() {
				if r := recover(); r != nil {
					panicked = fmt.Sprint(r)
				}
			}()
			out = fv.Call(in)
		}()
		if panicked != "" {
			return outcome{key: "panic:" + panicked, res: targetPanic{v: fr.errValue(panicked)}}
		}
		var vals []value
		key := ""
		for _, rv := range out {
			rt := rv.Type()
			switch {
			case rt.Kind() == reflect.String:
				rs := rv.String()
				done := false
				if len(rs) > 0 {
					for k := range strs {
						if strs[k] == nil || len(rs) > len(strs[k]) {
							continue
						}
						for off := 0; off+len(rs) <= len(strs[k]) && !done; off++ {
							if string(strs[k][off:off+len(rs)]) == rs {
								key += fmt.Sprintf("|part %d %d %d", k, off, len(rs))
								vals = append(vals, normStr(symstr(append([]value(nil), strv[k][off:off+len(rs)]...))))
								done = true
							}
						}
						if done {
							break
						}
					}
				}
				if !done {
					key += fmt.Sprintf("|str %q", rs)
					vals = append(vals, rs)
				}
			case rt.Kind() == reflect.Slice && rt.Elem().Kind() == reflect.Uint8:
				if rv.IsNil() {
					key += "|nilbytes"
					vals = append(vals, []value(nil))
					break
				}
				rb := rv.Bytes()
				done := false
				if cap(rb) > 0 {
					rp := reflect.ValueOf(rb[:1]).Pointer()
					for si, sa := range slices {
						if cap(sa.native) == 0 {
							continue
						}
						base := reflect.ValueOf(sa.native[:1]).Pointer()
						if rp >= base && rp < base+uintptr(cap(sa.native)) && int(rp-base)+len(rb) <= len(sa.orig) {
							off := int(rp - base)
							key += fmt.Sprintf("|alias %d %d %d", si, off, len(rb))
							vals = append(vals, sa.orig[off:off+len(rb):off+len(rb)])
							done = true
							break
						}
					}
				}
				if !done {
					key += fmt.Sprintf("|bytes %q", rb)
					r := make([]value, len(rb))
					for i, b := range rb {
						r[i] = b
					}
					vals = append(vals, r)
				}
			case rt.Kind() == reflect.Slice && rt.Elem().Kind() == reflect.String:
				key += fmt.Sprintf("|strs %q", rv.Interface())
				if rv.IsNil() {
					vals = append(vals, []value(nil))
				} else {
					r := make([]value, rv.Len())
					for i := range r {
						r[i] = rv.Index(i).String()
					}
					vals = append(vals, r)
				}
			case rt == errorType || (rt.Kind() == reflect.Interface && rt.Implements(errorType)):
				if rv.IsNil() {
					key += "|noerr"
					vals = append(vals, iface{})
				} else {
					msg := rv.Interface().(error).Error()
					key += "|err " + msg
					vals = append(vals, fr.errValue(msg))
				}
			default:
				key += fmt.Sprintf("|%v", rv.Interface())
				vals = append(vals, scalarFromReflect(name, rv))
			}
		}
		switch len(vals) {
		case 0:
			return outcome{key, nil}
		case 1:
			return outcome{key, vals[0]}
		}
		return outcome{key, tuple(vals)}
	}
	finish := func(o outcome) value {
		if tp, isPanic := o.res.(targetPanic); isPanic {
			panic(tp)
		}
		return o.res
	}
	domValues := func(id int) []uint64 {
		var xs []uint64
		for x := 0; x < 256; x++ {
			if ps.vars[id].dom.has(x) {
				xs = append(xs, uint64(x))
			}
		}
		return xs
	}
	// One variable after the other: the domain of variable i is split into the classes of
	// values for which the result, as a function of the variables still to come, is the same.
	for i, id := range vids {
		v := ps.vars[id]
		if d, okp := ps.nextPrefix(); okp {
			if d.kind != decValue || !d.hasDom || int(d.v) != v.id {
				panic(engineAbort{abortInternal, fmt.Sprintf("decision vector out of sync at %d: want a result class of %s (%s)", len(ps.decisions), name, fr.site())})
			}
			ps.apply(d, nil)
			cur[id] = uint64(d.val)
			continue
		}
		ps.st.domQ++
		type class struct {
			rep uint64
			dom dom256
		}
		var classes []*class
		byKey := map[string]*class{}
		var rest [][]uint64
		for _, rid := range vids[i+1:] {
			rest = append(rest, domValues(rid))
		}
		for _, x := range domValues(id) {
			cur[id] = x
			key := ""
			switch len(rest) {
			case 0:
				key = evalAt().key
			case 1:
				rid := vids[i+1]
				for _, y := range rest[0] {
					cur[rid] = y
					key += evalAt().key + "\x00"
				}
			}
			c := byKey[key]
			if c == nil {
				c = &class{rep: x}
				byKey[key] = c
				classes = append(classes, c)
			}
			c.dom.set(int(x))
		}
		if len(classes) == 0 {
			panic(engineAbort{abortInfeasible, "no feasible value at " + fr.site()})
		}
		for k := len(classes) - 1; k >= 1; k-- {
			ps.fork(fr, decision{kind: decValue, hasDom: true, v: int32(v.id), val: int64(classes[k].rep), dom: classes[k].dom})
		}
		d := decision{kind: decValue, hasDom: true, v: int32(v.id), val: int64(classes[0].rep), dom: classes[0].dom}
		ps.apply(d, nil)
		cur[id] = classes[0].rep
	}
	return finish(evalAt()), true
}

func scalarFromReflect(name string, rv reflect.Value) value {
	switch rv.Kind() {
	case reflect.Bool:
		return rv.Bool()
	case reflect.Int:
		return int(rv.Int())
	case reflect.Int8:
		return int8(rv.Int())
	case reflect.Int16:
		return int16(rv.Int())
	case reflect.Int32:
		return int32(rv.Int())
	case reflect.Int64:
		return rv.Int()
	case reflect.Uint:
		return uint(rv.Uint())
	case reflect.Uint8:
		return uint8(rv.Uint())
	case reflect.Uint16:
		return uint16(rv.Uint())
	case reflect.Uint32:
		return uint32(rv.Uint())
	case reflect.Uint64:
		return rv.Uint()
	case reflect.Uintptr:
		return uintptr(rv.Uint())
	case reflect.Float64:
		return rv.Float()
	case reflect.Float32:
		return float32(rv.Float())
	}
	panic(unsupported("native call of " + name + ": result kind " + rv.Kind().String()))
}

// ---- package sort over slices with a "less" closure ------------------------------------
//
// sort.Slice, sort.SliceStable and sort.SliceIsSorted use reflection to swap; the model sorts
// the interpreter's own slice (in place, as the real functions do) by insertion, calling the
// closure through the interpreter - a symbolic comparison result forks like any branch.
// sort.Slice is modelled as a stable sort (one of the orders the real function may produce).

func init() {
	less := func(fr *frame, fn value, i, j int) bool {
		r := call(fr.i, fr, 0, fn, []value{i, j})
		switch r := r.(type) {
		case bool:
			return r
		case sym:
			return fr.path().branch(fr, r.t)
		}
		panic(unsupported("sort: less returned " + fmt.Sprintf("%T", r)))
	}
	sliceOf := func(x value) []value {
		if it, ok := x.(iface); ok {
			x = it.v
		}
		if p, ok := x.(*value); ok && p != nil {
			x = *p
		}
		s, ok := x.([]value)
		if !ok {
			panic(unsupported("sort: argument is not a slice: " + fmt.Sprintf("%T", x)))
		}
		return s
	}
	sortStable := func(fr *frame, args []value) value {
		s := sliceOf(args[0])
		// insertion sort with adjacent swaps: only "less(j, j-1)" on the current contents
		for i := 1; i < len(s); i++ {
			for j := i; j > 0 && less(fr, args[1], j, j-1); j-- {
				s[j], s[j-1] = s[j-1], s[j]
			}
		}
		return nil
	}
	externals["sort.SliceStable"] = sortStable
	externals["sort.Slice"] = sortStable
	externals["sort.SliceIsSorted"] = func(fr *frame, args []value) value {
		s := sliceOf(args[0])
		for i := len(s) - 1; i > 0; i-- {
			if less(fr, args[1], i, i-1) {
				return false
			}
		}
		return true
	}
	for name, conv := range map[string]func(a, b value) bool{
		"sort.Ints":    func(a, b value) bool { return asInt64(a) < asInt64(b) },
		"sort.Strings": func(a, b value) bool { return a.(string) < b.(string) },
	} {
		conv := conv
		externals[name] = func(fr *frame, args []value) value {
			s := sliceOf(args[0])
			for _, e := range s {
				if _, isSym := e.(sym); isSym {
					panic(unsupported("sort of symbolic values"))
				}
				if _, isSym := e.(symstr); isSym {
					panic(unsupported("sort of symbolic values"))
				}
			}
			for i := 1; i < len(s); i++ {
				for j := i; j > 0 && conv(s[j], s[j-1]); j-- {
					s[j], s[j-1] = s[j-1], s[j]
				}
			}
			return nil
		}
	}
}
