package interp

// SMT back end: one long-lived solver process per worker, talked to over
// stdin/stdout in SMT-LIB2 with push/pop per query.

import (
	"bufio"
	"fmt"
	"io"
	"os/exec"
	"strconv"
	"strings"
	"time"
)

type satResult int

const (
	resSat satResult = iota
	resUnsat
	resUnknown // unknown, timeout or any "(error" line: inconclusive
)

func (r satResult) String() string {
	return [...]string{"sat", "unsat", "unknown"}[r]
}

type solver struct {
	name    string
	argv    []string
	cmd     *exec.Cmd
	in      io.WriteCloser
	out     *bufio.Reader
	queries int64
	nanos   int64
	slowest time.Duration
	errors  int64
	log     io.Writer // optional: every script is copied here (solver diffing)
	timeout time.Duration
}

func solverArgv(name string, timeoutMs int) []string {
	switch name {
	case "z3":
		return []string{"z3", "-in", fmt.Sprintf("-t:%d", timeoutMs)}
	case "z3-new":
		return []string{"z3-new", "-in", fmt.Sprintf("-t:%d", timeoutMs)}
	case "cvc5":
		return []string{"cvc5", "--incremental", "--produce-models", "--lang=smt2", fmt.Sprintf("--tlimit-per=%d", timeoutMs)}
	}
	panic("unknown solver " + name)
}

func newSolver(name string, timeoutMs int) (*solver, error) {
	s := &solver{name: name, argv: solverArgv(name, timeoutMs), timeout: time.Duration(timeoutMs) * time.Millisecond}
	if err := s.start(); err != nil {
		return nil, err
	}
	return s, nil
}

func (s *solver) start() error {
	s.cmd = exec.Command(s.argv[0], s.argv[1:]...)
	in, err := s.cmd.StdinPipe()
	if err != nil {
		return err
	}
	out, err := s.cmd.StdoutPipe()
	if err != nil {
		return err
	}
	s.cmd.Stderr = nil
	if err := s.cmd.Start(); err != nil {
		return err
	}
	s.in = in
	s.out = bufio.NewReaderSize(out, 1<<16)
	// no set-logic on purpose (old z3 drops what it cannot parse under QF_ABV)
	io.WriteString(s.in, "(set-option :produce-models true)\n")
	return nil
}

func (s *solver) close() {
	if s.cmd != nil {
		s.in.Close()
		s.cmd.Process.Kill()
		s.cmd.Wait()
		s.cmd = nil
	}
}

// readSexp reads one complete s-expression or atom line from the solver.
func (s *solver) readSexp() (string, error) {
	var sb strings.Builder
	depth := 0
	started := false
	for {
		line, err := s.out.ReadString('\n')
		if err != nil {
			return sb.String(), err
		}
		sb.WriteString(line)
		for _, c := range line {
			switch c {
			case '(':
				depth++
				started = true
			case ')':
				depth--
			}
		}
		if strings.TrimSpace(line) != "" {
			started = true
		}
		if started && depth <= 0 {
			return sb.String(), nil
		}
	}
}

// query runs: push; script; check-sat; [get-value vars]; pop.
// script must contain declarations and assertions only.
func (s *solver) query(script string, vars []string) (satResult, map[string]uint64) {
	t0 := time.Now()
	defer func() {
		d := time.Since(t0)
		s.nanos += int64(d)
		if d > s.slowest {
			s.slowest = d
		}
		s.queries++
	}()
	if s.cmd == nil {
		if err := s.start(); err != nil {
			s.errors++
			return resUnknown, nil
		}
	}
	full := "(push 1)\n" + script + "(check-sat)\n"
	if s.log != nil {
		fmt.Fprintf(s.log, "; ---- query\n%s(pop 1)\n", full)
	}
	if _, err := io.WriteString(s.in, full); err != nil {
		s.restart()
		return resUnknown, nil
	}
	ans, err := s.readSexp()
	if err != nil {
		s.restart()
		return resUnknown, nil
	}
	res := resUnknown
	a := strings.TrimSpace(ans)
	switch {
	case strings.Contains(a, "(error"):
		s.errors++
		// drain possible further lines: a following sat/unsat answer must not be trusted
		s.restart()
		return resUnknown, nil
	case a == "sat":
		res = resSat
	case a == "unsat":
		res = resUnsat
	default:
		res = resUnknown
	}
	var model map[string]uint64
	if res == resSat && len(vars) > 0 {
		io.WriteString(s.in, "(get-value ("+strings.Join(vars, " ")+"))\n")
		mv, err := s.readSexp()
		if err != nil || strings.Contains(mv, "(error") {
			s.errors++
			s.restart()
			return resUnknown, nil
		}
		model = parseModel(mv)
	}
	io.WriteString(s.in, "(pop 1)\n")
	return res, model
}

func (s *solver) restart() {
	s.close()
	s.start()
}

// parseModel parses ((v0 #x41) (v1 #b0101) (v2 true) (v3 (_ bv5 64)))
func parseModel(m string) map[string]uint64 {
	res := make(map[string]uint64)
	toks := tokenizeSexp(m)
	// pattern: "(" name value ")"
	for i := 0; i+1 < len(toks); i++ {
		if toks[i] != "(" {
			continue
		}
		name := toks[i+1]
		if name == "(" || name == ")" {
			continue
		}
		if i+2 >= len(toks) {
			break
		}
		v := toks[i+2]
		switch {
		case strings.HasPrefix(v, "#x"):
			u, _ := strconv.ParseUint(v[2:], 16, 64)
			res[name] = u
		case strings.HasPrefix(v, "#b"):
			u, _ := strconv.ParseUint(v[2:], 2, 64)
			res[name] = u
		case v == "true":
			res[name] = 1
		case v == "false":
			res[name] = 0
		case v == "(" && i+4 < len(toks) && toks[i+3] == "_" && strings.HasPrefix(toks[i+4], "bv"):
			u, _ := strconv.ParseUint(toks[i+4][2:], 10, 64)
			res[name] = u
		}
	}
	return res
}

func tokenizeSexp(s string) []string {
	var toks []string
	cur := strings.Builder{}
	flush := func() {
		if cur.Len() > 0 {
			toks = append(toks, cur.String())
			cur.Reset()
		}
	}
	for _, c := range s {
		switch c {
		case '(', ')':
			flush()
			toks = append(toks, string(c))
		case ' ', '\n', '\t', '\r':
			flush()
		default:
			cur.WriteRune(c)
		}
	}
	flush()
	return toks
}
