// Copyright 2013 The Go Authors. All rights reserved.
// Use of this source code is governed by a BSD-style
// license that can be found in the LICENSE file.

// Package interp is a fork of golang.org/x/tools/go/ssa/interp (v0.29.0)
// turned into a path-exploring symbolic interpreter ("symgo"):
//
//   - scalar leaves (integers, bools, bytes) may be symbolic SMT terms (sym.go);
//     the heap shape (pointers, slice headers, interface types, maps) stays concrete;
//   - a branch on a symbolic condition forks; forks are explored by
//     re-execution from a decision vector (explore.go);
//   - feasibility and assertions are decided by z3 (solver.go) or, for
//     constraints over a single 8-bit variable, by exact domain evaluation;
//   - Go's run-time checks are explicit and end the path as a target panic;
//   - writes to memory allocated by package initialisation are monitored.
//
// The reflect fake, goroutines, channels and select were removed.
package interp

import (
	"fmt"
	"go/token"
	"go/types"
	"os"
	"runtime"
	"slices"
	"strconv"
	"unsafe"

	"golang.org/x/tools/go/ssa"
)

type continuation int

const (
	kNext continuation = iota
	kReturn
	kJump
)

// Mode is a bitmask of options affecting the interpreter.
type Mode uint

const (
	DisableRecover Mode = 1 << iota // Disable recover() in target programs; show interpreter crash instead.
	EnableTracing                   // Print a trace of all instructions as they are interpreted.
)

type methodSet map[string]*ssa.Function

// State of one interpreter instance (one per worker goroutine).
type interpreter struct {
	prog               *ssa.Program           // the SSA program
	globals            map[*ssa.Global]*value // addresses of global variables (immutable)
	mode               Mode                   // interpreter options
	runtimeErrorString types.Type             // the runtime.errorString type
	sizes              types.Sizes            // the effective type-sizing function

	eng     *Engine
	mainPkg *ssa.Package
	ps      *pathState // the path being executed (nil during init)
	static  staticMem  // memory allocated by package initialisation
	inInit  bool
	fnInfos map[*ssa.Function]*fnInfo
	errStrT types.Type // *errors.errorString, if package errors is loaded
	depth   int
	specOK  map[*ssa.BasicBlock]bool
}

type fnInfo struct {
	external  externalFn
	intrinsic intrinsicFn
	kind      int // 0 = interpret, 1 = external, 2 = intrinsic, 3 = skip (std init), 4 = unsupported
	inRepo    bool
	isHarness bool
	name      string
	nreg      int
	regMap    map[ssa.Value]int // nil: registers are addressed by their go/ssa number
	regsReady bool
	envPool   [][]value
}

type deferred struct {
	fn    value
	args  []value
	instr *ssa.Defer
	tail  *deferred
}

type frame struct {
	i                *interpreter
	caller           *frame
	fn               *ssa.Function
	block, prevBlock *ssa.BasicBlock
	env              []value // values of SSA variables: params, free variables, then registers by number
	regBase          int
	fi               *fnInfo
	locals           []value
	defers           *deferred
	result           value
	panicking        bool
	panic            interface{}
	phitemps         []value // temporaries for parallel phi assignment
	callpos          token.Pos
	curInstr         ssa.Instruction
}

func (fr *frame) path() *pathState {
	if fr.i.ps == nil {
		panic(unsupported("symbolic operation outside a path (during init)"))
	}
	return fr.i.ps
}

func (fr *frame) get(key ssa.Value) value {
	switch key := key.(type) {
	case nil:
		// Hack; simplifies handling of optional attributes
		// such as ssa.Slice.{Low,High}.
		return nil
	case *ssa.Function, *ssa.Builtin:
		return key
	case *ssa.Const:
		return constValue(key)
	case *ssa.Global:
		if r, ok := fr.i.globals[key]; ok {
			return r
		}
	}
	return fr.env[fr.slot(key)]
}

// slot returns key's index in fr.env.
func (fr *frame) slot(key ssa.Value) int {
	switch k := key.(type) {
	case *ssa.Parameter:
		for i, p := range fr.fn.Params {
			if p == k {
				return i
			}
		}
		panic("get: foreign parameter " + k.Name())
	case *ssa.FreeVar:
		for i, p := range fr.fn.FreeVars {
			if p == k {
				return len(fr.fn.Params) + i
			}
		}
		panic("get: foreign free variable " + k.Name())
	}
	if fr.fi.regMap != nil {
		if n, ok := fr.fi.regMap[key]; ok {
			return fr.regBase + n
		}
		panic(fmt.Sprintf("get: no slot for %T: %v", key, key.Name()))
	}
	return fr.regBase + regNum(key)
}

func (fr *frame) set(key ssa.Value, v value) {
	fr.env[fr.slot(key)] = v
}

// regNum reads the register number of a value-defining instruction. All such
// types of go/ssa v0.29.0 embed ssa.register first: {block *BasicBlock; num int; ...}.
// checkRegNums validates this reading against Value.Name() for every instruction of
// a function before the fast path is used for it.
func regNum(v ssa.Value) int {
	p := (*[2]unsafe.Pointer)(unsafe.Pointer(&v))[1]
	return *(*int)(unsafe.Add(p, unsafe.Sizeof(uintptr(0))))
}

// prepareRegs numbers fn's registers: the fast unsafe path when it provably agrees
// with the names go/ssa prints, otherwise an explicit map.
func prepareRegs(fi *fnInfo, fn *ssa.Function) {
	n := 0
	ok := true
	seen := map[int]bool{}
	var vals []ssa.Value
	for _, b := range fn.Blocks {
		for _, in := range b.Instrs {
			v, isV := in.(ssa.Value)
			if !isV {
				continue
			}
			vals = append(vals, v)
			n++
			k := regNum(v)
			if k < 0 || k >= 1<<24 || seen[k] || v.Name() != "t"+strconv.Itoa(k) {
				ok = false
			}
			seen[k] = true
		}
	}
	for k := range seen {
		if k >= n {
			ok = false
		}
	}
	fi.nreg = n
	if !ok {
		fi.regMap = map[ssa.Value]int{}
		for k, v := range vals {
			fi.regMap[v] = k
		}
	}
	fi.regsReady = true
}

// runDefer runs a deferred call d.
// It always returns normally, but may set or clear fr.panic.
func (fr *frame) runDefer(d *deferred) {
	var ok bool
	defer func() {
		if !ok {
			// Deferred call created a new state of panic.
			r := recover()
			if isEngineAbort(r) {
				panic(r)
			}
			fr.panicking = true
			fr.panic = r
		}
	}()
	call(fr.i, fr, d.instr.Pos(), d.fn, d.args)
	ok = true
}

// runDefers executes fr's deferred function calls in LIFO order.
func (fr *frame) runDefers() {
	for d := fr.defers; d != nil; d = d.tail {
		fr.runDefer(d)
	}
	fr.defers = nil
	if fr.panicking {
		panic(fr.panic) // new panic, or still panicking
	}
}

// lookupMethod returns the method set for type typ.
func lookupMethod(i *interpreter, typ types.Type, meth *types.Func) *ssa.Function {
	return i.prog.LookupMethod(typ, meth.Pkg(), meth.Name())
}

func mustDeref(t types.Type) types.Type {
	if p, ok := t.Underlying().(*types.Pointer); ok {
		return p.Elem()
	}
	panic(fmt.Sprintf("mustDeref: %v is not a pointer", t))
}

// rtErr builds the value of a Go run-time error (what recover() would return).
func (i *interpreter) rtErr(msg string) value {
	return iface{i.runtimeErrorString, "runtime error: " + msg}
}

func (fr *frame) nilDeref() {
	panic(targetPanic{v: fr.i.rtErr("invalid memory address or nil pointer dereference")})
}

// deref checks a pointer operand and returns it.
func (fr *frame) ptr(v value) *value {
	p, ok := v.(*value)
	if !ok {
		if ap, ok := v.(absPtr); ok {
			_ = ap
			panic(unsupported("load/store through a pointer into an abstract array"))
		}
		panic(fmt.Sprintf("expected pointer, got %T", v))
	}
	if p == nil {
		fr.nilDeref()
	}
	return p
}

// index resolves an index operand against length n: bounds check (a fork
// when symbolic), then concretisation.
func (fr *frame) index(idx value, n int) int {
	if s, ok := idx.(sym); ok {
		ps := fr.path()
		w := kindWidth(s.k)
		var inb *Term
		if kindSigned(s.k) {
			inb = mkAnd(mk2(OpSle, 0, mkConst(w, 0), s.t), mk2(OpSlt, 0, s.t, mkConst(w, uint64(n))))
		} else {
			inb = mk2(OpUlt, 0, s.t, mkConst(w, uint64(n)))
		}
		if !ps.branch(fr, inb) {
			panic(targetPanic{v: fr.i.rtErr(fmt.Sprintf("index out of range [symbolic] with length %d", n))})
		}
		return int(ps.concretize(fr, s))
	}
	k := asInt64(idx)
	if k < 0 || k >= int64(n) {
		panic(targetPanic{v: fr.i.rtErr(fmt.Sprintf("index out of range [%d] with length %d", k, n))})
	}
	return int(k)
}

// visitInstr interprets a single ssa.Instruction within the activation
// record frame.  It returns a continuation value indicating where to
// read the next instruction from.
func visitInstr(fr *frame, instr ssa.Instruction) continuation {
	switch instr := instr.(type) {
	case *ssa.DebugRef:
		// no-op

	case *ssa.UnOp:
		fr.set(instr, unop(fr, instr, fr.get(instr.X)))

	case *ssa.BinOp:
		fr.set(instr, binop(fr, instr.Op, instr.X.Type(), fr.get(instr.X), fr.get(instr.Y)))

	case *ssa.Call:
		fn, args := prepareCall(fr, &instr.Call)
		fr.set(instr, call(fr.i, fr, instr.Pos(), fn, args))

	case *ssa.ChangeInterface:
		fr.set(instr, fr.get(instr.X))

	case *ssa.ChangeType:
		fr.set(instr, fr.get(instr.X)) // (can't fail)

	case *ssa.Convert:
		fr.set(instr, conv(instr.Type(), instr.X.Type(), fr.get(instr.X)))

	case *ssa.SliceToArrayPointer:
		fr.set(instr, sliceToArrayPointer(instr.Type(), instr.X.Type(), fr.get(instr.X)))

	case *ssa.MakeInterface:
		fr.set(instr, iface{t: instr.X.Type(), v: fr.get(instr.X)})

	case *ssa.Extract:
		fr.set(instr, fr.get(instr.Tuple).(tuple)[instr.Index])

	case *ssa.Slice:
		fr.set(instr, slice(fr, fr.get(instr.X), fr.get(instr.Low), fr.get(instr.High), fr.get(instr.Max)))

	case *ssa.Return:
		switch len(instr.Results) {
		case 0:
		case 1:
			fr.result = fr.get(instr.Results[0])
		default:
			var res []value
			for _, r := range instr.Results {
				res = append(res, fr.get(r))
			}
			fr.result = tuple(res)
		}
		fr.block = nil
		return kReturn

	case *ssa.RunDefers:
		fr.runDefers()

	case *ssa.Panic:
		panic(targetPanic{v: fr.get(instr.X)})

	case *ssa.Store:
		addr := fr.get(instr.Addr)
		fr.i.store(mustDeref(instr.Addr.Type()), fr.ptr(addr), fr.get(instr.Val), fr)

	case *ssa.If:
		succ := 1
		c := fr.get(instr.Cond)
		var cond bool
		switch c := c.(type) {
		case bool:
			cond = c
		case sym:
			if nb, np, ok := fr.path().lookahead(fr, c.t); ok {
				fr.prevBlock, fr.block = np, nb
				return kJump
			}
			cond = fr.path().branch(fr, c.t)
		default:
			panic(fmt.Sprintf("If: bad condition %T", c))
		}
		if cond {
			succ = 0
		}
		fr.prevBlock, fr.block = fr.block, fr.block.Succs[succ]
		return kJump

	case *ssa.Jump:
		fr.prevBlock, fr.block = fr.block, fr.block.Succs[0]
		return kJump

	case *ssa.Defer:
		fn, args := prepareCall(fr, &instr.Call)
		defers := &fr.defers
		if into := fr.get(instr.DeferStack); into != nil {
			defers = into.(**deferred)
		}
		*defers = &deferred{
			fn:    fn,
			args:  args,
			instr: instr,
			tail:  *defers,
		}

	case *ssa.Go:
		panic(unsupported("go statement"))

	case *ssa.MakeChan:
		panic(unsupported("make(chan)"))

	case *ssa.Send:
		panic(unsupported("channel send"))

	case *ssa.Select:
		panic(unsupported("select"))

	case *ssa.Alloc:
		var addr *value
		if instr.Heap {
			// new
			addr = new(value)
			fr.set(instr, addr)
		} else {
			// local
			addr = fr.get(instr).(*value)
		}
		*addr = zero(mustDeref(instr.Type()))

	case *ssa.MakeSlice:
		capv := fr.get(instr.Cap)
		lenv := fr.get(instr.Len)
		tElt := instr.Type().Underlying().(*types.Slice).Elem()
		if isSym(capv) || isSym(lenv) {
			fr.set(instr, makeAbsSlice(fr, tElt, lenv, capv))
			break
		}
		c, l := asInt64(capv), asInt64(lenv)
		if l < 0 || c < l {
			panic(targetPanic{v: fr.i.rtErr("makeslice: len out of range")})
		}
		if c > 1<<24 {
			panic(unsupported(fmt.Sprintf("make of %d elements", c)))
		}
		slice := make([]value, c)
		if _, isStruct := tElt.Underlying().(*types.Struct); isStruct && c >= 64 {
			// large blocks of structs (the token/position pools): cells are
			// materialised by IndexAddr on first use (an untyped nil is never a
			// legitimate cell value)
		} else {
			for i := range slice {
				slice[i] = zero(tElt)
			}
		}
		fr.set(instr, slice[:l])

	case *ssa.MakeMap:
		var reserve int64
		if instr.Reserve != nil {
			reserve = asInt64(fr.get(instr.Reserve))
		}
		fr.set(instr, makeMap(instr.Type().Underlying().(*types.Map).Key(), reserve))

	case *ssa.Range:
		fr.set(instr, rangeIter(fr.get(instr.X), instr.X.Type()))

	case *ssa.Next:
		fr.set(instr, fr.get(instr.Iter).(iter).next())

	case *ssa.FieldAddr:
		p := fr.ptr(fr.get(instr.X))
		fr.set(instr, &(*p).(structure)[instr.Field])

	case *ssa.Field:
		fr.set(instr, fr.get(instr.X).(structure)[instr.Field])

	case *ssa.IndexAddr:
		x := fr.get(instr.X)
		idx := fr.get(instr.Index)
		switch x := x.(type) {
		case []value:
			k := fr.index(idx, len(x))
			if x[k] == nil {
				if st, ok := instr.X.Type().Underlying().(*types.Slice); ok {
					x[k] = zero(st.Elem())
				}
			}
			fr.set(instr, &x[k])
		case *value: // *array
			if x == nil {
				fr.nilDeref()
			}
			a := (*x).(array)
			fr.set(instr, &a[fr.index(idx, len(a))])
		case *absSlice:
			fr.set(instr, x.indexAddr(fr, idx))
		default:
			panic(fmt.Sprintf("unexpected x type in IndexAddr: %T", x))
		}

	case *ssa.Index:
		x := fr.get(instr.X)
		idx := fr.get(instr.Index)

		switch x := x.(type) {
		case array:
			fr.set(instr, x[fr.index(idx, len(x))])
		case string:
			fr.set(instr, x[fr.index(idx, len(x))])
		case symstr:
			fr.set(instr, x[fr.index(idx, len(x))])
		default:
			panic(fmt.Sprintf("unexpected x type in Index: %T", x))
		}

	case *ssa.Lookup:
		fr.set(instr, lookup(fr, instr, fr.get(instr.X), fr.get(instr.Index)))

	case *ssa.MapUpdate:
		m := fr.get(instr.Map)
		key := fr.get(instr.Key)
		v := fr.get(instr.Value)
		switch m := m.(type) {
		case map[value]value:
			if m == nil {
				panic(targetPanic{v: iface{fr.i.runtimeErrorString, "assignment to entry in nil map"}})
			}
			fr.i.noteMapWrite(m, fr)
			m[key] = v
		case *hashmap:
			if m == nil {
				panic(targetPanic{v: iface{fr.i.runtimeErrorString, "assignment to entry in nil map"}})
			}
			fr.i.noteMapWrite(m, fr)
			m.insert(key.(hashable), v)
		case *smap:
			if m == nil {
				panic(targetPanic{v: iface{fr.i.runtimeErrorString, "assignment to entry in nil map"}})
			}
			fr.i.noteMapWrite(m, fr)
			m.insert(fr, key, v)
		default:
			panic(fmt.Sprintf("illegal map type: %T", m))
		}

	case *ssa.TypeAssert:
		fr.set(instr, typeAssert(fr.i, instr, fr.get(instr.X).(iface)))

	case *ssa.MakeClosure:
		var bindings []value
		for _, binding := range instr.Bindings {
			bindings = append(bindings, fr.get(binding))
		}
		fr.set(instr, &closure{instr.Fn.(*ssa.Function), bindings})

	case *ssa.Phi:
		panic("unreachable") // phis are processed at block entry

	default:
		panic(fmt.Sprintf("unexpected instruction: %T", instr))
	}

	return kNext
}

// prepareCall determines the function value and argument values for a
// function call in a Call, Go or Defer instruction, performing
// interface method lookup if needed.
func prepareCall(fr *frame, call *ssa.CallCommon) (fn value, args []value) {
	v := fr.get(call.Value)
	if call.Method == nil {
		// Function call.
		fn = v
	} else {
		// Interface method invocation.
		recv := v.(iface)
		if recv.t == nil {
			fr.nilDeref()
		}
		if f := lookupMethod(fr.i, recv.t, call.Method); f == nil {
			// Unreachable in well-typed programs.
			panic(fmt.Sprintf("method set for dynamic type %v does not contain %s", recv.t, call.Method))
		} else {
			fn = f
		}
		args = append(args, recv.v)
	}
	for _, arg := range call.Args {
		args = append(args, fr.get(arg))
	}
	return
}

// call interprets a call to a function (function, builtin or closure)
// fn with arguments args, returning its result.
// callpos is the position of the callsite.
func call(i *interpreter, caller *frame, callpos token.Pos, fn value, args []value) value {
	switch fn := fn.(type) {
	case *ssa.Function:
		if fn == nil {
			panic(targetPanic{v: i.rtErr("invalid memory address or nil pointer dereference (call of nil func)")})
		}
		return callSSA(i, caller, callpos, fn, args, nil)
	case *closure:
		if fn == nil {
			panic(targetPanic{v: i.rtErr("invalid memory address or nil pointer dereference (call of nil func)")})
		}
		return callSSA(i, caller, callpos, fn.Fn, args, fn.Env)
	case *ssa.Builtin:
		return callBuiltin(caller, callpos, fn, args)
	}
	panic(fmt.Sprintf("cannot call %T", fn))
}

func loc(fset *token.FileSet, pos token.Pos) string {
	if pos == token.NoPos {
		return ""
	}
	return " at " + fset.Position(pos).String()
}

const repoModule = "github.com/z7zmey/php-parser"

func (i *interpreter) info(fn *ssa.Function) *fnInfo {
	if fi, ok := i.fnInfos[fn]; ok {
		return fi
	}
	fi := &fnInfo{name: fn.String()}
	pkg := fn.Pkg
	if pkg == nil && fn.Origin() != nil {
		pkg = fn.Origin().Pkg
	}
	// methods wrappers / thunks / bound closures have no Pkg: look at the receiver/parent
	path := ""
	if pkg != nil {
		path = pkg.Pkg.Path()
	} else if fn.Parent() != nil {
		pi := i.info(fn.Parent())
		fi.inRepo, fi.isHarness = pi.inRepo, pi.isHarness
		path = "?parent"
	} else if fn.Synthetic != "" {
		// wrapper: interpret (body only forwards)
		path = "?synthetic"
		fi.inRepo = true
	}
	if pkg != nil {
		fi.isHarness = pkg == i.mainPkg
		fi.inRepo = fi.isHarness || path == repoModule || (len(path) > len(repoModule) && path[:len(repoModule)+1] == repoModule+"/")
	}
	switch {
	case fi.isHarness && fn.Parent() == nil && intrinsics[fn.Name()] != nil && fn.Signature.Recv() == nil:
		fi.kind = 2
		fi.intrinsic = intrinsics[fn.Name()]
	case fn.Parent() == nil && externals[fi.name] != nil:
		fi.kind = 1
		fi.external = externals[fi.name]
	case fi.inRepo || interpretableStd[fi.name] || interpretableStdPrefix(fi.name):
		fi.kind = 0
	case fn.Parent() == nil && nativeFuncs[fi.name] != nil:
		fi.kind = 1
		fi.external = makeNative(fi.name, nativeFuncs[fi.name])
	case fn.Name() == "init" && fn.Parent() == nil && fn.Signature.Recv() == nil:
		fi.kind = 3
	default:
		fi.kind = 4
	}
	i.fnInfos[fn] = fi
	return fi
}

// interpretableStdPrefix: std types whose methods are plain Go over slices (no assembly, no
// unsafe, no package state) and are interpreted like library code, so that a byte buffer that
// takes ownership of a slice of the source (bytes.NewBuffer(tok.Value)) writes where the real
// one writes.
func interpretableStdPrefix(name string) bool {
	for _, p := range []string{"(*bytes.Buffer).", "bytes.NewBuffer", "bytes.growSlice"} {
		if len(name) >= len(p) && name[:len(p)] == p {
			return true
		}
	}
	return false
}

// std functions whose SSA bodies may be interpreted (pure, no package state).
var interpretableStd = map[string]bool{
	"(*errors.errorString).Error": true,
	"(runtime.errorString).Error": true,
}

// callSSA interprets a call to function fn with arguments args,
// and lexical environment env, returning its result.
// callpos is the position of the callsite.
func callSSA(i *interpreter, caller *frame, callpos token.Pos, fn *ssa.Function, args []value, env []value) value {
	fr := &frame{
		i:       i,
		caller:  caller, // for panic/recover
		fn:      fn,
		callpos: callpos,
	}
	fi := i.info(fn)
	switch fi.kind {
	case 1:
		return fi.external(fr, args)
	case 2:
		return fi.intrinsic(fr, args)
	case 3:
		return nil
	case 4:
		panic(unsupported("call of un-modelled external function " + fi.name))
	}
	if fn.Blocks == nil {
		panic(unsupported("no code for function: " + fi.name))
	}
	if i.ps != nil {
		i.ps.noteFunc(fn)
	}

	// generic function body?
	if fn.TypeParams().Len() > 0 && len(fn.TypeArgs()) == 0 {
		panic("interp requires ssa.BuilderMode to include InstantiateGenerics to execute generics")
	}
	i.depth++
	if i.depth > 3000 {
		panic(engineAbort{kind: abortFuel, msg: "call depth exceeded (unbounded recursion)"})
	}
	defer func() { i.depth-- }()

	if !fi.regsReady {
		prepareRegs(fi, fn)
	}
	fr.fi = fi
	fr.regBase = len(fn.Params) + len(fn.FreeVars)
	// environments are recycled per function without clearing: SSA defines every
	// register before its uses on every path of one activation
	if k := len(fi.envPool); k > 0 {
		fr.env = fi.envPool[k-1]
		fi.envPool = fi.envPool[:k-1]
	} else {
		fr.env = make([]value, fr.regBase+fi.nreg)
	}
	defer func() { fi.envPool = append(fi.envPool, fr.env) }()
	fr.block = fn.Blocks[0]
	fr.locals = make([]value, len(fn.Locals))
	for i, l := range fn.Locals {
		fr.locals[i] = zero(mustDeref(l.Type()))
		fr.set(l, &fr.locals[i])
	}
	copy(fr.env, args[:len(fn.Params)])
	copy(fr.env[len(fn.Params):], env[:len(fn.FreeVars)])
	for fr.block != nil {
		runFrame(fr)
	}
	return fr.result
}

// runFrame executes SSA instructions starting at fr.block and
// continuing until a return, a panic, or a recovered panic.
func runFrame(fr *frame) {
	defer func() {
		if fr.block == nil {
			return // normal return
		}
		r := recover()
		if isEngineAbort(r) {
			panic(r) // not a target panic: unwind the whole path
		}
		if tp, ok := r.(targetPanic); ok && tp.site == "" {
			tp.site = fr.site()
			tp.fn = fr.fn.String()
			r = tp
		}
		if _, ok := r.(targetPanic); !ok {
			// a Go panic inside the interpreter itself: engine defect (or an
			// unchecked run-time condition). Never reported as a target panic.
			buf := make([]byte, 4096)
			buf = buf[:runtime.Stack(buf, false)]
			panic(engineAbort{kind: abortInternal, msg: fmt.Sprintf("%v at %s\n%s", r, fr.site(), buf)})
		}
		fr.panicking = true
		fr.panic = r
		fr.runDefers()
		fr.block = fr.fn.Recover
		if fr.block == nil {
			// recovered in a function without named results: return zero values
			fr.result = zeroResult(fr.fn)
		}
	}()

	ps := fr.i.ps
	for {
		nonPhis := executePhis(fr)
		if ps != nil {
			ps.instrs += int64(len(nonPhis))
			if ps.instrs > ps.fuel {
				panic(engineAbort{kind: abortFuel, msg: "instruction budget exhausted in " + fr.fn.String() + " at " + fr.site()})
			}
		}
		for _, instr := range nonPhis {
			fr.curInstr = instr
			if visitInstr(fr, instr) == kReturn {
				return
			}
			// Inv: kNext (continue) or kJump (last instr)
		}
	}
}

func zeroResult(fn *ssa.Function) value {
	res := fn.Signature.Results()
	switch res.Len() {
	case 0:
		return nil
	case 1:
		return zero(res.At(0).Type())
	}
	return zero(res)
}

// site returns "file:line" of the instruction being executed.
func (fr *frame) site() string {
	if fr == nil || fr.fn == nil {
		return "?"
	}
	pos := token.NoPos
	if fr.curInstr != nil {
		pos = fr.curInstr.Pos()
		if pos == token.NoPos {
			// look for a nearby instruction with a position
			if v, ok := fr.curInstr.(ssa.Value); ok {
				_ = v
			}
			for _, in := range fr.block.Instrs {
				if in.Pos() != token.NoPos {
					pos = in.Pos()
				}
				if in == fr.curInstr && pos != token.NoPos {
					break
				}
			}
		}
	}
	if pos == token.NoPos {
		pos = fr.fn.Pos()
	}
	p := fr.fn.Prog.Fset.Position(pos)
	return fmt.Sprintf("%s:%d", shortFile(p.Filename), p.Line)
}

// RepoPrefix is stripped from file names in reported source positions.
var RepoPrefix = "/repo/"

func shortFile(f string) string {
	pfx := RepoPrefix
	if len(f) > len(pfx) && f[:len(pfx)] == pfx {
		return f[len(pfx):]
	}
	return f
}

// executePhis executes the phi-nodes at the start of the current
// block and returns the non-phi instructions.
func executePhis(fr *frame) []ssa.Instruction {
	firstNonPhi := -1
	for i, instr := range fr.block.Instrs {
		if _, ok := instr.(*ssa.Phi); !ok {
			firstNonPhi = i
			break
		}
	}
	// Inv: 0 <= firstNonPhi; every block contains a non-phi.

	nonPhis := fr.block.Instrs[firstNonPhi:]
	if firstNonPhi > 0 {
		phis := fr.block.Instrs[:firstNonPhi]
		predIndex := slices.Index(fr.block.Preds, fr.prevBlock)
		fr.phitemps = fr.phitemps[:0]
		for _, phi := range phis {
			phi := phi.(*ssa.Phi)
			fr.phitemps = append(fr.phitemps, fr.get(phi.Edges[predIndex]))
		}
		for i, phi := range phis {
			fr.set(phi.(*ssa.Phi), fr.phitemps[i])
		}
	}
	return nonPhis
}

// doRecover implements the recover() built-in.
func doRecover(caller *frame) value {
	if caller != nil && !caller.panicking &&
		caller.caller != nil && caller.caller.panicking {
		caller.caller.panicking = false
		p := caller.caller.panic
		caller.caller.panic = nil
		switch p := p.(type) {
		case targetPanic:
			return p.v
		default:
			panic(fmt.Sprintf("unexpected panic type %T in target call to recover()", p))
		}
	}
	return iface{}
}

// newInterpreter creates an interpreter instance over the engine's program
// and runs package initialisation.
func newInterpreter(eng *Engine) (*interpreter, error) {
	mainpkg := eng.mainPkg
	i := &interpreter{
		prog:    mainpkg.Prog,
		globals: make(map[*ssa.Global]*value),
		sizes:   eng.sizes,
		eng:     eng,
		mainPkg: mainpkg,
		fnInfos: make(map[*ssa.Function]*fnInfo),
	}
	runtimePkg := i.prog.ImportedPackage("runtime")
	if runtimePkg == nil {
		return nil, fmt.Errorf("ssa.Program doesn't include runtime package")
	}
	i.runtimeErrorString = runtimePkg.Type("errorString").Object().Type()
	if ep := i.prog.ImportedPackage("errors"); ep != nil {
		if t := ep.Type("errorString"); t != nil {
			i.errStrT = types.NewPointer(t.Object().Type())
		}
	}

	for _, pkg := range i.prog.AllPackages() {
		// Initialize global storage.
		for _, m := range pkg.Members {
			switch v := m.(type) {
			case *ssa.Global:
				cell := zero(mustDeref(v.Type()))
				i.globals[v] = &cell
			}
		}
	}

	var err error
	func() {
		defer func() {
			if r := recover(); r != nil {
				err = fmt.Errorf("package initialisation failed: %v", describePanic(r))
			}
		}()
		i.inInit = true
		call(i, nil, token.NoPos, mainpkg.Func("init"), nil)
		i.inInit = false
	}()
	if err != nil {
		return nil, err
	}
	i.static.build(i)
	return i, nil
}

func describePanic(r interface{}) string {
	switch p := r.(type) {
	case targetPanic:
		return "target panic: " + toString(p.v) + " at " + p.site
	case engineAbort:
		return p.msg
	case runtime.Error:
		return p.Error()
	}
	return fmt.Sprint(r)
}

var _ = os.Stderr
