package interp

// Symbolic terms: SMT-LIB bit-vector / bool expressions with constant folding,
// a concrete evaluator (used for the one-variable finite-domain decision
// procedure and for evaluating models) and an SMT-LIB2 printer.

import (
	"fmt"
	"go/token"
	"go/types"
	"math/bits"
	"strings"
)

type Op uint8

const (
	OpConst Op = iota
	OpVar
	OpAdd
	OpSub
	OpMul
	OpUDiv
	OpSDiv
	OpURem
	OpSRem
	OpAnd
	OpOr
	OpXor
	OpShl
	OpLShr
	OpAShr
	OpBvNot
	OpNeg
	OpZext
	OpSext
	OpTrunc
	OpEq
	OpUlt
	OpUle
	OpSlt
	OpSle
	OpBAnd
	OpBOr
	OpBNot
	OpIte
)

// Term is an expression DAG node. w is the bit width (0 = Bool).
type Term struct {
	op      Op
	w       uint8
	a, b, c *Term
	k       uint64 // constant value (masked) or variable id
	sv      int32  // id of the only variable it depends on; -1 const; -2 several
	memoEp  uint32
	memoVal uint64
	size    uint32 // node count estimate (tree size, capped)
}

const (
	svConst = -1
	svMulti = -2
)

func mask(w uint8) uint64 {
	if w == 0 {
		return 1
	}
	if w >= 64 {
		return ^uint64(0)
	}
	return (uint64(1) << w) - 1
}

func mkConst(w uint8, v uint64) *Term {
	return &Term{op: OpConst, w: w, k: v & mask(w), sv: svConst, size: 1}
}

var termTrue = &Term{op: OpConst, w: 0, k: 1, sv: svConst, size: 1}
var termFalse = &Term{op: OpConst, w: 0, k: 0, sv: svConst, size: 1}

func mkBool(b bool) *Term {
	if b {
		return termTrue
	}
	return termFalse
}

func (t *Term) isConst() bool { return t.op == OpConst }

func joinSV(ts ...*Term) int32 {
	sv := int32(svConst)
	for _, t := range ts {
		if t == nil {
			continue
		}
		switch {
		case t.sv == svConst:
		case t.sv == svMulti:
			return svMulti
		case sv == svConst:
			sv = t.sv
		case sv != t.sv:
			return svMulti
		}
	}
	return sv
}

func sext64(v uint64, w uint8) int64 {
	if w == 0 || w >= 64 {
		return int64(v)
	}
	sh := 64 - uint(w)
	return int64(v<<sh) >> sh
}

// evalOp computes op on constants. a,b,c already evaluated (masked to their widths).
func evalOp(op Op, w uint8, aw uint8, a, b, c uint64) uint64 {
	m := mask(w)
	switch op {
	case OpAdd:
		return (a + b) & m
	case OpSub:
		return (a - b) & m
	case OpMul:
		return (a * b) & m
	case OpUDiv:
		if b == 0 {
			return m
		}
		return (a / b) & m
	case OpURem:
		if b == 0 {
			return a
		}
		return (a % b) & m
	case OpSDiv:
		if b == 0 {
			if sext64(a, w) < 0 {
				return 1
			}
			return m
		}
		sa, sb := sext64(a, w), sext64(b, w)
		if sb == -1 {
			return uint64(-sa) & m
		}
		return uint64(sa/sb) & m
	case OpSRem:
		if b == 0 {
			return a
		}
		sa, sb := sext64(a, w), sext64(b, w)
		if sb == -1 {
			return 0
		}
		return uint64(sa%sb) & m
	case OpAnd:
		return a & b
	case OpOr:
		return a | b
	case OpXor:
		return a ^ b
	case OpShl:
		if b >= uint64(w) {
			return 0
		}
		return (a << b) & m
	case OpLShr:
		if b >= uint64(w) {
			return 0
		}
		return a >> b
	case OpAShr:
		sa := sext64(a, w)
		if b >= uint64(w) {
			if sa < 0 {
				return m
			}
			return 0
		}
		return uint64(sa>>b) & m
	case OpBvNot:
		return ^a & m
	case OpNeg:
		return (-a) & m
	case OpZext:
		return a
	case OpSext:
		return uint64(sext64(a, aw)) & m
	case OpTrunc:
		return a & m
	case OpEq:
		if a == b {
			return 1
		}
		return 0
	case OpUlt:
		if a < b {
			return 1
		}
		return 0
	case OpUle:
		if a <= b {
			return 1
		}
		return 0
	case OpSlt:
		if sext64(a, aw) < sext64(b, aw) {
			return 1
		}
		return 0
	case OpSle:
		if sext64(a, aw) <= sext64(b, aw) {
			return 1
		}
		return 0
	case OpBAnd:
		return a & b & 1
	case OpBOr:
		return (a | b) & 1
	case OpBNot:
		return (a ^ 1) & 1
	case OpIte:
		if a != 0 {
			return b
		}
		return c
	}
	panic(fmt.Sprintf("evalOp: bad op %d", op))
}

func capSize(n uint32) uint32 {
	if n > 1<<30 {
		return 1 << 30
	}
	return n
}

func mk1(op Op, w uint8, a *Term) *Term {
	if a.isConst() {
		return mkConst(w, evalOp(op, w, a.w, a.k, 0, 0))
	}
	switch op {
	case OpBNot:
		if a.op == OpBNot {
			return a.a
		}
	case OpZext, OpSext, OpTrunc:
		if a.w == w {
			return a
		}
		if op == OpTrunc && (a.op == OpZext || a.op == OpSext) {
			// trunc(ext(x)) where x narrower or equal to target
			if a.a.w == w {
				return a.a
			}
			if a.a.w < w {
				return mk1(a.op, w, a.a)
			}
			return mk1(OpTrunc, w, a.a)
		}
		if op == OpZext && a.op == OpZext {
			return mk1(OpZext, w, a.a)
		}
	}
	return &Term{op: op, w: w, a: a, sv: a.sv, size: capSize(a.size + 1)}
}

func mk2(op Op, w uint8, a, b *Term) *Term {
	if a.isConst() && b.isConst() {
		return mkConst(w, evalOp(op, w, a.w, a.k, b.k, 0))
	}
	switch op {
	case OpBAnd:
		if a.isConst() {
			if a.k == 0 {
				return termFalse
			}
			return b
		}
		if b.isConst() {
			if b.k == 0 {
				return termFalse
			}
			return a
		}
		if a == b {
			return a
		}
	case OpBOr:
		if a.isConst() {
			if a.k == 1 {
				return termTrue
			}
			return b
		}
		if b.isConst() {
			if b.k == 1 {
				return termTrue
			}
			return a
		}
		if a == b {
			return a
		}
	case OpAdd, OpOr, OpXor:
		if a.isConst() && a.k == 0 {
			return b
		}
		if b.isConst() && b.k == 0 {
			return a
		}
	case OpSub, OpShl, OpLShr, OpAShr:
		if b.isConst() && b.k == 0 {
			return a
		}
	case OpAnd:
		if (a.isConst() && a.k == 0) || (b.isConst() && b.k == 0) {
			return mkConst(w, 0)
		}
		if a.isConst() && a.k == mask(w) {
			return b
		}
		if b.isConst() && b.k == mask(w) {
			return a
		}
	case OpMul:
		if (a.isConst() && a.k == 0) || (b.isConst() && b.k == 0) {
			return mkConst(w, 0)
		}
		if a.isConst() && a.k == 1 {
			return b
		}
		if b.isConst() && b.k == 1 {
			return a
		}
	case OpEq:
		if a == b {
			return termTrue
		}
	}
	return &Term{op: op, w: w, a: a, b: b, sv: joinSV(a, b), size: capSize(a.size + b.size + 1)}
}

func mkIte(c, a, b *Term) *Term {
	if c.isConst() {
		if c.k != 0 {
			return a
		}
		return b
	}
	if a == b {
		return a
	}
	if a.isConst() && b.isConst() && a.k == b.k {
		return a
	}
	if a.w == 0 && a.isConst() && b.isConst() {
		// ite(c, true, false) = c ; ite(c,false,true) = !c
		if a.k == 1 {
			return c
		}
		return mk1(OpBNot, 0, c)
	}
	return &Term{op: OpIte, w: a.w, a: c, b: a, c: b, sv: joinSV(c, a, b), size: capSize(c.size + a.size + b.size + 1)}
}

func mkEq(a, b *Term) *Term  { return mk2(OpEq, 0, a, b) }
func mkNot(a *Term) *Term    { return mk1(OpBNot, 0, a) }
func mkAnd(a, b *Term) *Term { return mk2(OpBAnd, 0, a, b) }
func mkOr(a, b *Term) *Term  { return mk2(OpBOr, 0, a, b) }

// evaluation ---------------------------------------------------------------

type evalCtx struct {
	ep   uint32
	vals func(id int) uint64
}

var globalEpoch uint32 // per-goroutine use only via evaluator below

// evaluator is owned by one path (one goroutine).
type evaluator struct {
	ep uint32
}

func (e *evaluator) eval(t *Term, vals func(id int) uint64) uint64 {
	e.ep++
	if e.ep == 0 {
		e.ep = 1
	}
	return e.ev(t, vals)
}

func (e *evaluator) ev(t *Term, vals func(id int) uint64) uint64 {
	switch t.op {
	case OpConst:
		return t.k
	case OpVar:
		return vals(int(t.k)) & mask(t.w)
	}
	if t.memoEp == e.ep {
		return t.memoVal
	}
	var a, b, c uint64
	var aw uint8
	if t.a != nil {
		a = e.ev(t.a, vals)
		aw = t.a.w
	}
	if t.op == OpIte {
		// lazy
		var r uint64
		if a != 0 {
			r = e.ev(t.b, vals)
		} else {
			r = e.ev(t.c, vals)
		}
		t.memoEp, t.memoVal = e.ep, r
		return r
	}
	if t.b != nil {
		b = e.ev(t.b, vals)
	}
	if t.c != nil {
		c = e.ev(t.c, vals)
	}
	r := evalOp(t.op, t.w, aw, a, b, c)
	t.memoEp, t.memoVal = e.ep, r
	return r
}

// evalSingle evaluates t, which depends only on variable t.sv, with that variable = v.
// Small terms are evaluated without memoisation.
func (e *evaluator) evalSingle(t *Term, v uint64) uint64 {
	if t.size <= 24 {
		return evalTree(t, v)
	}
	return e.eval(t, func(int) uint64 { return v })
}

func evalTree(t *Term, v uint64) uint64 {
	switch t.op {
	case OpConst:
		return t.k
	case OpVar:
		return v & mask(t.w)
	case OpIte:
		if evalTree(t.a, v) != 0 {
			return evalTree(t.b, v)
		}
		return evalTree(t.c, v)
	}
	var a, b uint64
	var aw uint8
	if t.a != nil {
		a = evalTree(t.a, v)
		aw = t.a.w
	}
	if t.b != nil {
		b = evalTree(t.b, v)
	}
	return evalOp(t.op, t.w, aw, a, b, 0)
}

// collectVars adds the ids of all variables in t to set.
func collectVars(t *Term, set map[int]bool, seen map[*Term]bool) {
	if t == nil || t.sv == svConst {
		return
	}
	if t.op == OpVar {
		set[int(t.k)] = true
		return
	}
	if t.sv >= 0 {
		set[int(t.sv)] = true
		return
	}
	if seen[t] {
		return
	}
	seen[t] = true
	collectVars(t.a, set, seen)
	collectVars(t.b, set, seen)
	collectVars(t.c, set, seen)
}

// SMT-LIB printing -----------------------------------------------------------

func sortName(w uint8) string {
	if w == 0 {
		return "Bool"
	}
	return fmt.Sprintf("(_ BitVec %d)", w)
}

var opSMT = map[Op]string{
	OpAdd: "bvadd", OpSub: "bvsub", OpMul: "bvmul", OpUDiv: "bvudiv", OpSDiv: "bvsdiv",
	OpURem: "bvurem", OpSRem: "bvsrem", OpAnd: "bvand", OpOr: "bvor", OpXor: "bvxor",
	OpShl: "bvshl", OpLShr: "bvlshr", OpAShr: "bvashr", OpBvNot: "bvnot", OpNeg: "bvneg",
	OpEq: "=", OpUlt: "bvult", OpUle: "bvule", OpSlt: "bvslt", OpSle: "bvsle",
	OpBAnd: "and", OpBOr: "or", OpBNot: "not", OpIte: "ite",
}

// smtPrinter prints terms with sharing through define-fun.
type smtPrinter struct {
	sb    *strings.Builder
	names map[*Term]string
	n     int
	pfx   string
}

func constSMT(w uint8, k uint64) string {
	if w == 0 {
		if k != 0 {
			return "true"
		}
		return "false"
	}
	if w%4 == 0 {
		return fmt.Sprintf("#x%0*x", int(w/4), k)
	}
	return fmt.Sprintf("(_ bv%d %d)", k, w)
}

func varName(id int) string { return fmt.Sprintf("v%d", id) }

// ref returns an SMT expression string for t, emitting definitions for big
// subterms to p.sb as needed.
func (p *smtPrinter) ref(t *Term) string {
	switch t.op {
	case OpConst:
		return constSMT(t.w, t.k)
	case OpVar:
		return varName(int(t.k))
	}
	if n, ok := p.names[t]; ok {
		return n
	}
	var s string
	switch t.op {
	case OpZext:
		s = fmt.Sprintf("((_ zero_extend %d) %s)", t.w-t.a.w, p.ref(t.a))
	case OpSext:
		s = fmt.Sprintf("((_ sign_extend %d) %s)", t.w-t.a.w, p.ref(t.a))
	case OpTrunc:
		s = fmt.Sprintf("((_ extract %d 0) %s)", t.w-1, p.ref(t.a))
	case OpIte:
		s = fmt.Sprintf("(ite %s %s %s)", p.ref(t.a), p.ref(t.b), p.ref(t.c))
	default:
		if t.b == nil {
			s = fmt.Sprintf("(%s %s)", opSMT[t.op], p.ref(t.a))
		} else {
			s = fmt.Sprintf("(%s %s %s)", opSMT[t.op], p.ref(t.a), p.ref(t.b))
		}
	}
	if t.size <= 6 {
		return s
	}
	p.n++
	name := fmt.Sprintf("%s%d", p.pfx, p.n)
	fmt.Fprintf(p.sb, "(define-fun %s () %s %s)\n", name, sortName(t.w), s)
	p.names[t] = name
	return name
}

// Go-kind helpers --------------------------------------------------------------

type sym struct {
	t *Term
	k types.BasicKind
}

func kindWidth(k types.BasicKind) uint8 {
	switch k {
	case types.Bool, types.UntypedBool:
		return 0
	case types.Int8, types.Uint8:
		return 8
	case types.Int16, types.Uint16:
		return 16
	case types.Int32, types.Uint32, types.UntypedRune:
		return 32
	case types.Int, types.Int64, types.Uint, types.Uint64, types.Uintptr, types.UntypedInt:
		return 64
	}
	panic(unsupported(fmt.Sprintf("symbolic value of kind %v", k)))
}

func kindSigned(k types.BasicKind) bool {
	switch k {
	case types.Int, types.Int8, types.Int16, types.Int32, types.Int64, types.UntypedInt, types.UntypedRune:
		return true
	}
	return false
}

func basicKind(t types.Type) types.BasicKind {
	if b, ok := t.Underlying().(*types.Basic); ok {
		k := b.Kind()
		switch k {
		case types.UntypedBool:
			return types.Bool
		case types.UntypedInt:
			return types.Int
		case types.UntypedRune:
			return types.Int32
		}
		return k
	}
	return types.Invalid
}

// concreteOfKind returns the Go value of kind k for the bit pattern v.
func concreteOfKind(k types.BasicKind, v uint64) value {
	switch k {
	case types.Bool:
		return v != 0
	case types.Int:
		return int(v)
	case types.Int8:
		return int8(v)
	case types.Int16:
		return int16(v)
	case types.Int32:
		return int32(v)
	case types.Int64:
		return int64(v)
	case types.Uint:
		return uint(v)
	case types.Uint8:
		return uint8(v)
	case types.Uint16:
		return uint16(v)
	case types.Uint32:
		return uint32(v)
	case types.Uint64:
		return uint64(v)
	case types.Uintptr:
		return uintptr(v)
	}
	panic(unsupported(fmt.Sprintf("concreteOfKind %v", k)))
}

// mkval wraps a term as a value, folding constants to concrete Go values.
func mkval(t *Term, k types.BasicKind) value {
	if t.isConst() {
		return concreteOfKind(k, t.k)
	}
	return sym{t, k}
}

// termOf returns the term and kind of an integer/bool value (concrete or symbolic).
func termOf(x value) (*Term, types.BasicKind, bool) {
	switch x := x.(type) {
	case sym:
		return x.t, x.k, true
	case bool:
		return mkBool(x), types.Bool, true
	case int:
		return mkConst(64, uint64(x)), types.Int, true
	case int8:
		return mkConst(8, uint64(x)), types.Int8, true
	case int16:
		return mkConst(16, uint64(x)), types.Int16, true
	case int32:
		return mkConst(32, uint64(x)), types.Int32, true
	case int64:
		return mkConst(64, uint64(x)), types.Int64, true
	case uint:
		return mkConst(64, uint64(x)), types.Uint, true
	case uint8:
		return mkConst(8, uint64(x)), types.Uint8, true
	case uint16:
		return mkConst(16, uint64(x)), types.Uint16, true
	case uint32:
		return mkConst(32, uint64(x)), types.Uint32, true
	case uint64:
		return mkConst(64, x), types.Uint64, true
	case uintptr:
		return mkConst(64, uint64(x)), types.Uintptr, true
	}
	return nil, types.Invalid, false
}

func isSym(x value) bool {
	_, ok := x.(sym)
	return ok
}

// boolTerm returns the Bool term of a (possibly symbolic) bool value.
func boolTerm(x value) *Term {
	switch x := x.(type) {
	case bool:
		return mkBool(x)
	case sym:
		if x.t.w != 0 {
			panic("boolTerm: not a bool")
		}
		return x.t
	}
	panic(fmt.Sprintf("boolTerm: %T", x))
}

// symBinop implements binop when at least one operand is symbolic.
// t is the static type of x.
func symBinop(fr *frame, op token.Token, t types.Type, x, y value) value {
	tx, kx, ok1 := termOf(x)
	ty, ky, ok2 := termOf(y)
	if !ok1 || !ok2 {
		panic(unsupported(fmt.Sprintf("symbolic binop %s on %T, %T", op, x, y)))
	}
	k := kx
	if bk := basicKind(t); bk != types.Invalid && bk != types.String {
		k = bk
	}
	w := kindWidth(k)
	signed := kindSigned(k)
	switch op {
	case token.SHL, token.SHR:
		// shift count: unsigned (or non-negative signed) of any width.
		if ty.isConst() {
			cnt := ty.k
			if kindSigned(ky) && sext64(ty.k, ty.w) < 0 {
				panic(targetPanic{v: fr.i.rtErr("negative shift amount")})
			}
			if cnt > 64 {
				cnt = 64
			}
			ty = mkConst(w, cnt)
		} else {
			if kindSigned(ky) {
				panic(unsupported("symbolic signed shift count"))
			}
			if ty.w < w {
				ty = mk1(OpZext, w, ty)
			} else if ty.w > w {
				// saturate: if ty >= w then w else trunc
				big := mk2(OpUle, 0, mkConst(ty.w, uint64(w)), ty)
				ty = mkIte(big, mkConst(w, uint64(w)), mk1(OpTrunc, w, ty))
			}
		}
		switch {
		case op == token.SHL:
			return mkval(mk2(OpShl, w, tx, ty), k)
		case signed:
			return mkval(mk2(OpAShr, w, tx, ty), k)
		default:
			return mkval(mk2(OpLShr, w, tx, ty), k)
		}
	}
	if tx.w != ty.w {
		panic(unsupported(fmt.Sprintf("symbolic binop %s width mismatch %d/%d", op, tx.w, ty.w)))
	}
	_ = ky
	switch op {
	case token.ADD:
		return mkval(mk2(OpAdd, w, tx, ty), k)
	case token.SUB:
		return mkval(mk2(OpSub, w, tx, ty), k)
	case token.MUL:
		return mkval(mk2(OpMul, w, tx, ty), k)
	case token.QUO, token.REM:
		// division by zero is a run-time panic
		if fr.path().branch(fr, mkEq(ty, mkConst(w, 0))) {
			panic(targetPanic{v: fr.i.rtErr("integer divide by zero")})
		}
		var o Op
		switch {
		case op == token.QUO && signed:
			o = OpSDiv
		case op == token.QUO:
			o = OpUDiv
		case signed:
			o = OpSRem
		default:
			o = OpURem
		}
		return mkval(mk2(o, w, tx, ty), k)
	case token.AND:
		if w == 0 {
			return mkval(mkAnd(tx, ty), k)
		}
		return mkval(mk2(OpAnd, w, tx, ty), k)
	case token.OR:
		if w == 0 {
			return mkval(mkOr(tx, ty), k)
		}
		return mkval(mk2(OpOr, w, tx, ty), k)
	case token.XOR:
		return mkval(mk2(OpXor, w, tx, ty), k)
	case token.AND_NOT:
		return mkval(mk2(OpAnd, w, tx, mk1(OpBvNot, w, ty)), k)
	case token.EQL:
		return mkval(mkEq(tx, ty), types.Bool)
	case token.NEQ:
		return mkval(mkNot(mkEq(tx, ty)), types.Bool)
	case token.LSS:
		if signed {
			return mkval(mk2(OpSlt, 0, tx, ty), types.Bool)
		}
		return mkval(mk2(OpUlt, 0, tx, ty), types.Bool)
	case token.LEQ:
		if signed {
			return mkval(mk2(OpSle, 0, tx, ty), types.Bool)
		}
		return mkval(mk2(OpUle, 0, tx, ty), types.Bool)
	case token.GTR:
		if signed {
			return mkval(mk2(OpSlt, 0, ty, tx), types.Bool)
		}
		return mkval(mk2(OpUlt, 0, ty, tx), types.Bool)
	case token.GEQ:
		if signed {
			return mkval(mk2(OpSle, 0, ty, tx), types.Bool)
		}
		return mkval(mk2(OpUle, 0, ty, tx), types.Bool)
	}
	panic(unsupported(fmt.Sprintf("symbolic binop %s", op)))
}

func symUnop(op token.Token, x sym) value {
	w := kindWidth(x.k)
	switch op {
	case token.SUB:
		return mkval(mk1(OpNeg, w, x.t), x.k)
	case token.NOT:
		return mkval(mkNot(x.t), types.Bool)
	case token.XOR:
		return mkval(mk1(OpBvNot, w, x.t), x.k)
	}
	panic(unsupported(fmt.Sprintf("symbolic unop %s", op)))
}

// symConv converts symbolic integer x to the basic destination kind.
func symConv(dst types.BasicKind, x sym) value {
	if dst == types.Bool {
		return x
	}
	switch dst {
	case types.String, types.Float32, types.Float64, types.Complex64, types.Complex128, types.UnsafePointer:
		panic(unsupported(fmt.Sprintf("conversion of symbolic integer to %v", dst)))
	}
	dw := kindWidth(dst)
	sw := kindWidth(x.k)
	var t *Term
	switch {
	case dw == sw:
		t = x.t
	case dw < sw:
		t = mk1(OpTrunc, dw, x.t)
	case kindSigned(x.k):
		t = mk1(OpSext, dw, x.t)
	default:
		t = mk1(OpZext, dw, x.t)
	}
	return mkval(t, dst)
}

// popcount of a 256-bit domain
type dom256 [4]uint64

func (d *dom256) has(v int) bool { return d[v>>6]&(1<<(uint(v)&63)) != 0 }
func (d *dom256) set(v int)      { d[v>>6] |= 1 << (uint(v) & 63) }
func (d *dom256) count() int {
	return bits.OnesCount64(d[0]) + bits.OnesCount64(d[1]) + bits.OnesCount64(d[2]) + bits.OnesCount64(d[3])
}
func (d *dom256) empty() bool { return d[0]|d[1]|d[2]|d[3] == 0 }
func (d *dom256) first() int {
	for i := 0; i < 4; i++ {
		if d[i] != 0 {
			return i*64 + bits.TrailingZeros64(d[i])
		}
	}
	return -1
}
func (d *dom256) and(o *dom256) dom256 {
	return dom256{d[0] & o[0], d[1] & o[1], d[2] & o[2], d[3] & o[3]}
}
func (d dom256) or(o dom256) dom256 {
	return dom256{d[0] | o[0], d[1] | o[1], d[2] | o[2], d[3] | o[3]}
}
func (d *dom256) andNot(o *dom256) dom256 {
	return dom256{d[0] &^ o[0], d[1] &^ o[1], d[2] &^ o[2], d[3] &^ o[3]}
}

var fullDom = dom256{^uint64(0), ^uint64(0), ^uint64(0), ^uint64(0)}

// ranges returns the domain as a list of inclusive [lo,hi] ranges.
func (d *dom256) ranges() [][2]int {
	var r [][2]int
	i := 0
	for i < 256 {
		if !d.has(i) {
			i++
			continue
		}
		j := i
		for j+1 < 256 && d.has(j+1) {
			j++
		}
		r = append(r, [2]int{i, j})
		i = j + 1
	}
	return r
}
