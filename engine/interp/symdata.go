package interp

// Symbolic strings, string-keyed ordered maps, abstract (symbolic-length)
// arrays, and the dispatch of binary operators over them.

import (
	"fmt"
	"go/token"
	"go/types"
)

// symstr is a string at least one of whose bytes is symbolic. Elements are
// uint8 or sym{..., Uint8}. Length is always concrete.
type symstr []value

// normStr turns a symstr without symbolic bytes back into a Go string.
func normStr(s symstr) value {
	for _, b := range s {
		if _, ok := b.(byte); !ok {
			return s
		}
	}
	bs := make([]byte, len(s))
	for i, b := range s {
		bs[i] = b.(byte)
	}
	return string(bs)
}

// strBytes returns the bytes of a string-ish value (string or symstr) as values.
func strBytes(x value) ([]value, bool) {
	switch x := x.(type) {
	case string:
		r := make([]value, len(x))
		for i := 0; i < len(x); i++ {
			r[i] = x[i]
		}
		return r, true
	case symstr:
		return []value(x), true
	}
	return nil, false
}

func byteTerm(b value) *Term {
	switch b := b.(type) {
	case byte:
		return mkConst(8, uint64(b))
	case sym:
		return b.t
	}
	panic(fmt.Sprintf("byteTerm: %T", b))
}

// bytesEqTerm returns the Bool term "a == b" for two byte sequences.
func bytesEqTerm(a, b []value) *Term {
	if len(a) != len(b) {
		return termFalse
	}
	t := termTrue
	for i := range a {
		t = mkAnd(t, mkEq(byteTerm(a[i]), byteTerm(b[i])))
		if t == termFalse {
			return t
		}
	}
	return t
}

func isStringKey(t types.Type) bool {
	b, ok := t.Underlying().(*types.Basic)
	return ok && b.Info()&types.IsString != 0
}

// smap is an insertion-ordered map with string keys; keys may be symbolic.
// Every operation that has to compare a symbolic key forks (via branch).
type smap struct {
	keys []value // string or symstr
	vals []value
}

func (m *smap) len() int {
	if m == nil {
		return 0
	}
	return len(m.keys)
}

func (m *smap) find(fr *frame, k value) int {
	if m == nil {
		return -1
	}
	kb, ok := strBytes(k)
	if !ok {
		panic(fmt.Sprintf("smap: key %T", k))
	}
	_, kConcrete := k.(string)
	for i, e := range m.keys {
		if es, ok := e.(string); ok && kConcrete {
			if es == k.(string) {
				return i
			}
			continue
		}
		eb, _ := strBytes(e)
		c := bytesEqTerm(kb, eb)
		if c.isConst() {
			if c.k != 0 {
				return i
			}
			continue
		}
		if fr.path().branch(fr, c) {
			return i
		}
	}
	return -1
}

func (m *smap) lookup(fr *frame, k value) (value, bool) {
	i := m.find(fr, k)
	if i < 0 {
		return nil, false
	}
	return m.vals[i], true
}

func (m *smap) insert(fr *frame, k, v value) {
	i := m.find(fr, k)
	if i >= 0 {
		m.vals[i] = v
		return
	}
	m.keys = append(m.keys, k)
	m.vals = append(m.vals, v)
}

func (m *smap) delete(fr *frame, k value) {
	i := m.find(fr, k)
	if i < 0 {
		return
	}
	m.keys = append(m.keys[:i:i], m.keys[i+1:]...)
	m.vals = append(m.vals[:i:i], m.vals[i+1:]...)
}

type smapIter struct {
	m *smap
	i int
}

func (it *smapIter) next() tuple {
	if it.m == nil || it.i >= len(it.m.keys) {
		return tuple{false, nil, nil}
	}
	k, v := it.m.keys[it.i], it.m.vals[it.i]
	it.i++
	return tuple{true, k, v}
}

// absSlice is a slice with a symbolic length and no cells (C18: pool blocks).
type absSlice struct {
	id   int
	n    sym // length == capacity
	elem types.Type
}

// absPtr is &a[idx] for an abstract slice.
type absPtr struct {
	obj *absSlice
	idx *Term // 64-bit
}

func makeAbsSlice(fr *frame, elem types.Type, lenv, capv value) value {
	ps := fr.path()
	lt, lk, _ := termOf(lenv)
	ct, _, _ := termOf(capv)
	// len <0 or cap < len panics
	bad := mkOr(mk2(OpSlt, 0, lt, mkConst(64, 0)), mk2(OpSlt, 0, ct, lt))
	if ps.branch(fr, bad) {
		panic(targetPanic{v: fr.i.rtErr("makeslice: len out of range")})
	}
	if !mkEq(lt, ct).isConst() {
		if !ps.branch(fr, mkEq(lt, ct)) {
			panic(unsupported("abstract array with cap != len"))
		}
	}
	ps.nAbs++
	return &absSlice{id: ps.nAbs, n: sym{lt, lk}, elem: elem}
}

func (a *absSlice) lenValue() value { return mkval(a.n.t, types.Int) }

func (a *absSlice) indexAddr(fr *frame, idx value) value {
	it, ik, ok := termOf(idx)
	if !ok {
		panic(fmt.Sprintf("absSlice index %T", idx))
	}
	if it.w != 64 {
		if kindSigned(ik) {
			it = mk1(OpSext, 64, it)
		} else {
			it = mk1(OpZext, 64, it)
		}
	}
	inb := mkAnd(mk2(OpSle, 0, mkConst(64, 0), it), mk2(OpSlt, 0, it, a.n.t))
	fr.path().obligation(fr, "bounds", inb)
	if !fr.path().branch(fr, inb) {
		panic(targetPanic{v: fr.i.rtErr("index out of range [symbolic] with symbolic length")})
	}
	return absPtr{a, it}
}

// symDispatchBinop handles the operand combinations the concrete binop does not know.
func symDispatchBinop(fr *frame, op token.Token, t types.Type, x, y value) (value, bool) {
	_, sx := x.(sym)
	_, sy := y.(sym)
	if sx || sy {
		return symBinop(fr, op, t, x, y), true
	}
	_, ssx := x.(symstr)
	_, ssy := y.(symstr)
	if ssx || ssy {
		xb, ok1 := strBytes(x)
		yb, ok2 := strBytes(y)
		if !ok1 || !ok2 {
			panic(unsupported(fmt.Sprintf("string binop %s on %T,%T", op, x, y)))
		}
		switch op {
		case token.ADD:
			r := make(symstr, 0, len(xb)+len(yb))
			r = append(r, xb...)
			r = append(r, yb...)
			return r, true
		case token.EQL:
			return mkval(bytesEqTerm(xb, yb), types.Bool), true
		case token.NEQ:
			return mkval(mkNot(bytesEqTerm(xb, yb)), types.Bool), true
		}
		panic(unsupported(fmt.Sprintf("symbolic string operator %s", op)))
	}
	if op == token.EQL || op == token.NEQ {
		if _, isStruct := x.(structure); isStruct && hasSymLeaf(x, y) {
			// == on struct values with symbolic leaves: conjunction of the field equalities
			eq := aggEqTerm(t, x, y)
			if op == token.NEQ {
				eq = mkNot(eq)
			}
			return mkval(eq, types.Bool), true
		}
		if _, isArr := x.(array); isArr && hasSymLeaf(x, y) {
			eq := aggEqTerm(t, x, y)
			if op == token.NEQ {
				eq = mkNot(eq)
			}
			return mkval(eq, types.Bool), true
		}
	}
	ax, apx := x.(absPtr)
	ay, apy := y.(absPtr)
	if apx || apy {
		var eq *Term
		switch {
		case apx && apy:
			if ax.obj != ay.obj {
				eq = termFalse
			} else {
				eq = mkEq(ax.idx, ay.idx)
			}
		default:
			// absPtr vs ordinary pointer (incl. nil): never equal
			eq = termFalse
		}
		switch op {
		case token.EQL:
			return mkval(eq, types.Bool), true
		case token.NEQ:
			return mkval(mkNot(eq), types.Bool), true
		}
		panic(unsupported("operator on abstract pointer"))
	}
	return nil, false
}

// hasSymLeaf: does an aggregate value contain a symbolic scalar or string?
func hasSymLeaf(vs ...value) bool {
	for _, v := range vs {
		switch v := v.(type) {
		case sym, symstr:
			return true
		case structure:
			for _, f := range v {
				if hasSymLeaf(f) {
					return true
				}
			}
		case array:
			for _, f := range v {
				if hasSymLeaf(f) {
					return true
				}
			}
		}
	}
	return false
}

// aggEqTerm: the Bool term "x == y" for two values of (struct/array/scalar) type t.
func aggEqTerm(t types.Type, x, y value) *Term {
	switch xv := x.(type) {
	case structure:
		yv := y.(structure)
		st := t.Underlying().(*types.Struct)
		r := termTrue
		for i := 0; i < st.NumFields(); i++ {
			if st.Field(i).Name() == "_" {
				continue
			}
			r = mkAnd(r, aggEqTerm(st.Field(i).Type(), xv[i], yv[i]))
			if r == termFalse {
				return r
			}
		}
		return r
	case array:
		yv := y.(array)
		et := t.Underlying().(*types.Array).Elem()
		r := termTrue
		for i := range xv {
			r = mkAnd(r, aggEqTerm(et, xv[i], yv[i]))
			if r == termFalse {
				return r
			}
		}
		return r
	}
	_, sx := x.(sym)
	_, sy := y.(sym)
	if sx || sy {
		tx, _, ok1 := termOf(x)
		ty, _, ok2 := termOf(y)
		if !ok1 || !ok2 {
			panic(unsupported(fmt.Sprintf("comparison of %T and %T inside an aggregate", x, y)))
		}
		return mkEq(tx, ty)
	}
	_, ssx := x.(symstr)
	_, ssy := y.(symstr)
	if ssx || ssy {
		xb, _ := strBytes(x)
		yb, _ := strBytes(y)
		return bytesEqTerm(xb, yb)
	}
	if equals(t, x, y) {
		return termTrue
	}
	return termFalse
}
