package interp

import (
	"fmt"
	"go/types"
	"os"
	"strings"

	"golang.org/x/tools/go/packages"
	"golang.org/x/tools/go/ssa"
	"golang.org/x/tools/go/ssa/ssautil"
)

// Load builds the SSA program of the harness package: the Go files in overlay
// (virtual path -> contents) are injected into dir (the root of /repo).
func Load(dir string, overlay map[string][]byte) (*Engine, error) {
	cfg := &packages.Config{
		Mode:    packages.LoadAllSyntax,
		Dir:     dir,
		Overlay: overlay,
		Env:     append(os.Environ(), "GOFLAGS=-mod=mod", "GOPROXY=off", "GOSUMDB=off", "GOTOOLCHAIN=local", "GOWORK=off"),
	}
	pkgs, err := packages.Load(cfg, ".")
	if err != nil {
		return nil, err
	}
	var errs []string
	packages.Visit(pkgs, nil, func(p *packages.Package) {
		for _, e := range p.Errors {
			errs = append(errs, e.Error())
		}
	})
	if len(errs) > 0 {
		if len(errs) > 20 {
			errs = errs[:20]
		}
		return nil, fmt.Errorf("loading harness package failed:\n%s", strings.Join(errs, "\n"))
	}
	prog, spkgs := ssautil.AllPackages(pkgs, ssa.InstantiateGenerics)
	prog.Build()
	var mainPkg *ssa.Package
	for _, p := range spkgs {
		if p != nil && p.Pkg.Name() == "main" {
			mainPkg = p
		}
	}
	if mainPkg == nil {
		return nil, fmt.Errorf("no main package among the loaded packages")
	}
	eng := &Engine{
		prog:      prog,
		mainPkg:   mainPkg,
		sizes:     types.SizesFor("gc", "amd64"),
		SolverCmd: "z3",
		TimeoutMs: 20000,
		FinalZ3:   true,
	}
	return eng, nil
}

// HasEntry reports whether the harness defines function name.
func (eng *Engine) HasEntry(name string) bool { return eng.mainPkg.Func(name) != nil }

// FuncSize returns the number of SSA instructions of the named function
// (as printed by Function.String()), for evidence.
func (eng *Engine) FuncSize(name string) int {
	for fn := range ssautil.AllFunctions(eng.prog) {
		if fn.String() == name {
			n := 0
			for _, b := range fn.Blocks {
				n += len(b.Instrs)
			}
			return n
		}
	}
	return 0
}

// ScanNondeterminism inspects the SSA of the named functions (names as in
// Stats.Funcs) for constructs whose result may depend on scheduling, iteration
// order, time or randomness. Only functions of module modPrefix are inspected.
func (eng *Engine) ScanNondeterminism(names map[string]int64, modPrefix string) (scanned int, found []string) {
	byName := map[string]*ssa.Function{}
	for fn := range ssautil.AllFunctions(eng.prog) {
		byName[fn.String()] = fn
	}
	for name := range names {
		fn := byName[name]
		if fn == nil || fn.Pkg == nil || !strings.HasPrefix(fn.Pkg.Pkg.Path(), modPrefix) {
			continue
		}
		scanned++
		for _, b := range fn.Blocks {
			for _, in := range b.Instrs {
				what := ""
				switch in := in.(type) {
				case *ssa.Go:
					what = "go statement"
				case *ssa.Select:
					what = "select"
				case *ssa.Send:
					what = "channel send"
				case *ssa.MakeChan:
					what = "make(chan)"
				case *ssa.Range:
					if _, ok := in.X.Type().Underlying().(*types.Map); ok {
						what = "range over a map"
					}
				case *ssa.UnOp:
					if in.Op.String() == "<-" {
						what = "channel receive"
					}
				case ssa.CallInstruction:
					if c := in.Common().StaticCallee(); c != nil && c.Pkg != nil {
						switch p := c.Pkg.Pkg.Path(); p {
						case "time", "math/rand", "crypto/rand", "os", "sync", "sync/atomic", "runtime", "unsafe", "reflect":
							what = "call of " + p + "." + c.Name()
						}
					}
				}
				if what != "" {
					found = append(found, name+": "+what)
				}
			}
		}
	}
	return
}
