package interp

// Models of the standard-library functions the repository (and the harness)
// call. Only calls that leave the module are modelled; everything inside the
// module is interpreted from its SSA. Every model is exact: where a result
// shape depends on symbolic bytes the model forks (branch) on the byte classes.

import (
	"fmt"
	"go/token"
	"go/types"
	"strconv"
	"strings"
	"unicode"
	"unicode/utf8"
)

type externalFn func(fr *frame, args []value) value

// Key strings are from Function.String().
var externals = make(map[string]externalFn)

func init() {
	for k, v := range map[string]externalFn{
		"errors.New":        extErrorsNew,
		"fmt.Sprintf":       extSprintf,
		"fmt.Printf":        extPrintf,
		"fmt.Println":       extPrintf,
		"fmt.Print":         extPrintf,
		"strings.HasSuffix": extHasSuffix,
		"strings.HasPrefix": extHasPrefix,
		"bytes.HasSuffix":   extHasSuffix,
		"bytes.HasPrefix":   extHasPrefix,
		"bytes.Equal":       extBytesEqual,
		"bytes.Repeat":      extRepeat,
		"strings.Repeat":    extRepeat,
		"strings.Replace":   extReplace,
		"strings.SplitN":    extSplitN,
		"strings.ToLower":   extToLower,
		"strconv.ParseInt":  extParseInt,
		"strconv.ParseUint": extParseUint,
		"strconv.Atoi":      extAtoi,
		"strconv.Itoa":      extItoa,
		"strconv.FormatInt": extFormatInt,
		"strconv.Quote":     extQuote,
		"strconv.Unquote":   extUnquote,
		"io.WriteString":    extWriteString,
	} {
		externals[k] = v
	}
}

func (fr *frame) errValue(msg string) value {
	i := fr.i
	if i.errStrT != nil {
		cell := value(structure{msg})
		return iface{t: i.errStrT, v: &cell}
	}
	return iface{i.runtimeErrorString, msg}
}

func extErrorsNew(fr *frame, args []value) value {
	s, ok := args[0].(string)
	if !ok {
		panic(unsupported("errors.New with symbolic text"))
	}
	return fr.errValue(s)
}

// seqOf returns the element sequence of a string, symstr or []byte value and
// whether it was a string kind.
func seqOf(x value) ([]value, bool) {
	switch x := x.(type) {
	case string, symstr:
		b, _ := strBytes(x)
		return b, true
	case []value:
		return x, false
	}
	panic(fmt.Sprintf("seqOf: %T", x))
}

func boolOrSym(t *Term) value { return mkval(t, types.Bool) }

func extHasSuffix(fr *frame, args []value) value {
	a, _ := seqOf(args[0])
	b, _ := seqOf(args[1])
	if len(b) > len(a) {
		return false
	}
	return boolOrSym(bytesEqTerm(a[len(a)-len(b):], b))
}

func extHasPrefix(fr *frame, args []value) value {
	a, _ := seqOf(args[0])
	b, _ := seqOf(args[1])
	if len(b) > len(a) {
		return false
	}
	return boolOrSym(bytesEqTerm(a[:len(b)], b))
}

func extBytesEqual(fr *frame, args []value) value {
	a, _ := seqOf(args[0])
	b, _ := seqOf(args[1])
	return boolOrSym(bytesEqTerm(a, b))
}

func concreteInt(fr *frame, v value) int {
	if s, ok := v.(sym); ok {
		return int(fr.path().concretize(fr, s))
	}
	return int(asInt64(v))
}

func fromSeq(seq []value, isStr bool) value {
	if isStr {
		return normStr(symstr(seq))
	}
	return seq
}

func extRepeat(fr *frame, args []value) value {
	a, isStr := seqOf(args[0])
	n := concreteInt(fr, args[1])
	if n < 0 {
		panic(targetPanic{v: fr.errValue("Repeat: negative Repeat count")})
	}
	if n*len(a) > 1<<20 {
		panic(unsupported("Repeat result too large"))
	}
	r := make([]value, 0, n*len(a))
	for k := 0; k < n; k++ {
		r = append(r, a...)
	}
	return fromSeq(r, isStr)
}

// strings.Replace(s, old, new, n) for concrete old/new of length <= 1 pattern
// (the lexer strips "_" from numerals); symbolic s forks per candidate byte.
func extReplace(fr *frame, args []value) value {
	s, _ := seqOf(args[0])
	oldS, ok1 := args[1].(string)
	newS, ok2 := args[2].(string)
	n := concreteInt(fr, args[3])
	if !ok1 || !ok2 {
		panic(unsupported("strings.Replace with symbolic pattern"))
	}
	if cs, ok := args[0].(string); ok {
		return strings.Replace(cs, oldS, newS, n)
	}
	if len(oldS) != 1 {
		panic(unsupported("strings.Replace on a symbolic string with a pattern longer than one byte"))
	}
	var out []value
	cnt := 0
	for _, b := range s {
		match := false
		if n < 0 || cnt < n {
			c := mkEq(byteTerm(b), mkConst(8, uint64(oldS[0])))
			if c.isConst() {
				match = c.k != 0
			} else {
				match = fr.path().branch(fr, c)
			}
		}
		if match {
			cnt++
			for k := 0; k < len(newS); k++ {
				out = append(out, newS[k])
			}
		} else {
			out = append(out, b)
		}
	}
	return normStr(symstr(out))
}

func extSplitN(fr *frame, args []value) value {
	sepS, ok := args[1].(string)
	n := concreteInt(fr, args[2])
	if !ok {
		panic(unsupported("strings.SplitN with symbolic separator"))
	}
	if cs, ok := args[0].(string); ok {
		parts := strings.SplitN(cs, sepS, n)
		var r []value
		for _, p := range parts {
			r = append(r, p)
		}
		return r
	}
	if len(sepS) != 1 || n < 0 {
		panic(unsupported("strings.SplitN on a symbolic string (separator must be one byte, n >= 0)"))
	}
	s, _ := seqOf(args[0])
	if n == 0 {
		return []value(nil)
	}
	var parts []value
	start := 0
	for k := 0; k < len(s) && len(parts) < n-1; k++ {
		c := mkEq(byteTerm(s[k]), mkConst(8, uint64(sepS[0])))
		hit := false
		if c.isConst() {
			hit = c.k != 0
		} else {
			hit = fr.path().branch(fr, c)
		}
		if hit {
			parts = append(parts, normStr(symstr(append([]value(nil), s[start:k]...))))
			start = k + 1
		}
	}
	parts = append(parts, normStr(symstr(append([]value(nil), s[start:]...))))
	return parts
}

// strings.ToLower: exact for ASCII; a path on which a byte may be >= 0x80 is cut
// into the ASCII part (modelled) and the non-ASCII part (unsupported).
func extToLower(fr *frame, args []value) value {
	if cs, ok := args[0].(string); ok {
		return strings.ToLower(cs)
	}
	s, _ := seqOf(args[0])
	out := make([]value, len(s))
	for k, b := range s {
		if cb, ok := b.(byte); ok {
			if cb >= 0x80 {
				panic(unsupported("strings.ToLower on a partly symbolic non-ASCII string"))
			}
			out[k] = strings.ToLower(string(rune(cb)))[0]
			continue
		}
		t := byteTerm(b)
		if !fr.path().branch(fr, mk2(OpUlt, 0, t, mkConst(8, 0x80))) {
			panic(unsupported("strings.ToLower on a symbolic non-ASCII byte"))
		}
		isUp := mkAnd(mk2(OpUle, 0, mkConst(8, 'A'), t), mk2(OpUle, 0, t, mkConst(8, 'Z')))
		out[k] = mkval(mkIte(isUp, mk2(OpAdd, 8, t, mkConst(8, 32)), t), types.Uint8)
	}
	return normStr(symstr(out))
}

// concretizeSeq forks over the values of every symbolic byte (bounded).
func concretizeSeq(fr *frame, s []value, what string) string {
	b := make([]byte, len(s))
	budget := 1
	for k, e := range s {
		switch e := e.(type) {
		case byte:
			b[k] = e
		case sym:
			if e.t.sv >= 0 {
				budget *= fr.path().vars[e.t.sv].dom.count()
			} else {
				budget *= 16
			}
			if budget > 4096 {
				panic(unsupported(what + ": too many symbolic byte values to enumerate"))
			}
			b[k] = byte(fr.path().concretize(fr, e))
		}
	}
	return string(b)
}

func digitVal(t *Term, base int) (valid *Term, val *Term) {
	// val is 64-bit
	z := mk1(OpZext, 64, t)
	isDec := mkAnd(mk2(OpUle, 0, mkConst(8, '0'), t), mk2(OpUle, 0, t, mkConst(8, '9')))
	isLow := mkAnd(mk2(OpUle, 0, mkConst(8, 'a'), t), mk2(OpUle, 0, t, mkConst(8, 'z')))
	isUp := mkAnd(mk2(OpUle, 0, mkConst(8, 'A'), t), mk2(OpUle, 0, t, mkConst(8, 'Z')))
	d := mkIte(isDec, mk2(OpSub, 64, z, mkConst(64, '0')),
		mkIte(isLow, mk2(OpSub, 64, z, mkConst(64, 'a'-10)),
			mkIte(isUp, mk2(OpSub, 64, z, mkConst(64, 'A'-10)), mkConst(64, 255))))
	valid = mk2(OpUlt, 0, d, mkConst(64, uint64(base)))
	return valid, d
}

// parseSym models strconv.Parse{Int,Uint}(s, base, 64) for a partly symbolic s
// with explicit base 2..36: returns (value term, ok). Forks on validity.
func parseSym(fr *frame, s []value, base int, signedOK bool, what string) (value, bool) {
	ps := fr.path()
	if base < 2 || base > 36 {
		return concretizeFallback(fr, s, base, signedOK, what)
	}
	if len(s) == 0 {
		return 0, false
	}
	// sign
	neg := false
	if signedOK {
		t := byteTerm(s[0])
		isSign := mkOr(mkEq(t, mkConst(8, '+')), mkEq(t, mkConst(8, '-')))
		if ps.branch(fr, isSign) {
			neg = ps.branch(fr, mkEq(t, mkConst(8, '-')))
			s = s[1:]
			if len(s) == 0 {
				return 0, false
			}
		}
	}
	// number of digits that can never overflow 63 bits
	maxDigits := 0
	for lim, p := uint64(1<<63-1), uint64(1); p <= lim/uint64(base); p *= uint64(base) {
		maxDigits++
	}
	if len(s) > maxDigits {
		return concretizeFallback(fr, s, base, signedOK, what)
	}
	allValid := termTrue
	acc := mkConst(64, 0)
	for _, b := range s {
		v, d := digitVal(byteTerm(b), base)
		allValid = mkAnd(allValid, v)
		acc = mk2(OpAdd, 64, mk2(OpMul, 64, acc, mkConst(64, uint64(base))), d)
	}
	if !ps.branch(fr, allValid) {
		return 0, false
	}
	if neg {
		acc = mk1(OpNeg, 64, acc)
	}
	return mkval(acc, types.Int64), true
}

func concretizeFallback(fr *frame, s []value, base int, signedOK bool, what string) (value, bool) {
	cs := concretizeSeq(fr, s, what)
	if signedOK {
		v, err := strconv.ParseInt(cs, base, 64)
		return v, err == nil
	}
	v, err := strconv.ParseUint(cs, base, 64)
	return int64(v), err == nil
}

func extParseInt(fr *frame, args []value) value {
	base := concreteInt(fr, args[1])
	bits := concreteInt(fr, args[2])
	if cs, ok := args[0].(string); ok {
		v, err := strconv.ParseInt(cs, base, bits)
		if err != nil {
			return tuple{v, fr.errValue(err.Error())}
		}
		return tuple{v, iface{}}
	}
	if bits != 0 && bits != 64 {
		panic(unsupported("ParseInt of a symbolic string with bitSize != 0/64"))
	}
	s, _ := seqOf(args[0])
	v, ok := parseSym(fr, s, base, true, "strconv.ParseInt")
	if !ok {
		return tuple{int64(0), fr.errValue("strconv.ParseInt: parsing: invalid syntax or out of range")}
	}
	if sv, isS := v.(sym); isS {
		v = sym{sv.t, types.Int64}
	} else {
		v = int64(asInt64(v))
	}
	return tuple{v, iface{}}
}

func extParseUint(fr *frame, args []value) value {
	base := concreteInt(fr, args[1])
	bits := concreteInt(fr, args[2])
	if cs, ok := args[0].(string); ok {
		v, err := strconv.ParseUint(cs, base, bits)
		if err != nil {
			return tuple{v, fr.errValue(err.Error())}
		}
		return tuple{v, iface{}}
	}
	if bits != 0 && bits != 64 {
		panic(unsupported("ParseUint of a symbolic string with bitSize != 0/64"))
	}
	s, _ := seqOf(args[0])
	v, ok := parseSym(fr, s, base, false, "strconv.ParseUint")
	if !ok {
		return tuple{uint64(0), fr.errValue("strconv.ParseUint: parsing: invalid syntax or out of range")}
	}
	if sv, isS := v.(sym); isS {
		v = sym{sv.t, types.Uint64}
	} else {
		v = uint64(asInt64(v))
	}
	return tuple{v, iface{}}
}

func extAtoi(fr *frame, args []value) value {
	if cs, ok := args[0].(string); ok {
		v, err := strconv.Atoi(cs)
		if err != nil {
			return tuple{v, fr.errValue(err.Error())}
		}
		return tuple{v, iface{}}
	}
	s, _ := seqOf(args[0])
	v, ok := parseSym(fr, s, 10, true, "strconv.Atoi")
	if !ok {
		return tuple{int(0), fr.errValue("strconv.Atoi: parsing: invalid syntax or out of range")}
	}
	if sv, isS := v.(sym); isS {
		v = sym{sv.t, types.Int}
	} else {
		v = int(asInt64(v))
	}
	return tuple{v, iface{}}
}

func extItoa(fr *frame, args []value) value {
	return strconv.Itoa(concreteInt(fr, args[0]))
}

func extFormatInt(fr *frame, args []value) value {
	return strconv.FormatInt(int64(concreteInt(fr, args[0])), concreteInt(fr, args[1]))
}

// strconv.Quote: ASCII bytes exactly (plain bytes stay symbolic, the others are
// enumerated); symbolic bytes >= 0x80 are outside the model.
func extQuote(fr *frame, args []value) value {
	if cs, ok := args[0].(string); ok {
		return strconv.Quote(cs)
	}
	s, _ := seqOf(args[0])
	ps := fr.path()
	out := []value{byte('"')}
	for _, b := range s {
		if cb, ok := b.(byte); ok {
			if cb >= 0x80 {
				panic(unsupported("strconv.Quote of a partly symbolic non-ASCII string"))
			}
			q := strconv.Quote(string(rune(cb)))
			for k := 1; k < len(q)-1; k++ {
				out = append(out, q[k])
			}
			continue
		}
		t := byteTerm(b)
		if !ps.branch(fr, mk2(OpUlt, 0, t, mkConst(8, 0x80))) {
			panic(unsupported("strconv.Quote of a symbolic non-ASCII byte"))
		}
		plain := mkAnd(mkAnd(mk2(OpUle, 0, mkConst(8, 0x20), t), mk2(OpUle, 0, t, mkConst(8, 0x7e))),
			mkAnd(mkNot(mkEq(t, mkConst(8, '"'))), mkNot(mkEq(t, mkConst(8, '\\')))))
		if ps.branch(fr, plain) {
			out = append(out, b)
			continue
		}
		cb := byte(ps.concretize(fr, b.(sym)))
		q := strconv.Quote(string(rune(cb)))
		for k := 1; k < len(q)-1; k++ {
			out = append(out, q[k])
		}
	}
	out = append(out, byte('"'))
	return normStr(symstr(out))
}

func extWriteString(fr *frame, args []value) value {
	w := args[0].(iface)
	if w.t == nil {
		fr.nilDeref()
	}
	b, _ := seqOf(args[1])
	buf := append([]value(nil), b...)
	m := fr.i.prog.LookupMethod(w.t, nil, "Write")
	if m == nil {
		panic(unsupported("io.WriteString: writer without Write method"))
	}
	return call(fr.i, fr, token.NoPos, m, []value{w.v, buf})
}

func extPrintf(fr *frame, args []value) value {
	if fr.i.ps != nil {
		fr.i.ps.wrotePrint = true
	}
	return tuple{0, iface{}}
}

// fmt.Sprintf for the verbs the repository uses (%s %d %c %v %q) with exact
// results; symbolic integers fork on their decimal length / ASCII-ness.
func extSprintf(fr *frame, args []value) value {
	format, ok := args[0].(string)
	if !ok {
		panic(unsupported("Sprintf with symbolic format"))
	}
	va := args[1].([]value)
	var out []value
	emit := func(s string) {
		for k := 0; k < len(s); k++ {
			out = append(out, s[k])
		}
	}
	ai := 0
	for k := 0; k < len(format); k++ {
		c := format[k]
		if c != '%' {
			out = append(out, c)
			continue
		}
		k++
		if k >= len(format) {
			emit("%!(NOVERB)")
			break
		}
		verb := format[k]
		if verb == '%' {
			out = append(out, byte('%'))
			continue
		}
		if ai >= len(va) {
			emit("%!" + string(verb) + "(MISSING)")
			continue
		}
		arg := va[ai].(iface)
		ai++
		switch verb {
		case 's', 'v':
			switch x := arg.v.(type) {
			case string:
				emit(x)
			case symstr:
				out = append(out, x...)
			case sym:
				out = append(out, decimalOf(fr, x)...)
			default:
				if verb == 'v' {
					if _, _, isInt := termOf(x); isInt {
						emit(fmt.Sprint(x))
						continue
					}
				}
				// error / Stringer values
				if m := fr.i.prog.LookupMethod(arg.t, nil, "Error"); m != nil {
					r := call(fr.i, fr, token.NoPos, m, []value{arg.v})
					b, _ := strBytes(r)
					out = append(out, b...)
				} else if m := fr.i.prog.LookupMethod(arg.t, nil, "String"); m != nil {
					r := call(fr.i, fr, token.NoPos, m, []value{arg.v})
					b, _ := strBytes(r)
					out = append(out, b...)
				} else {
					panic(unsupported(fmt.Sprintf("Sprintf %%%c of %T", verb, x)))
				}
			}
		case 'd':
			switch x := arg.v.(type) {
			case sym:
				out = append(out, decimalOf(fr, x)...)
			default:
				emit(fmt.Sprintf("%d", x))
			}
		case 'c':
			switch x := arg.v.(type) {
			case sym:
				if x.t.w != 8 {
					panic(unsupported("Sprintf %c of a wide symbolic integer"))
				}
				if fr.path().branch(fr, mk2(OpUlt, 0, x.t, mkConst(8, 0x80))) {
					out = append(out, x)
				} else {
					// U+0080..U+00FF: two-byte UTF-8
					hi := mk2(OpOr, 8, mkConst(8, 0xC0), mk2(OpLShr, 8, x.t, mkConst(8, 6)))
					lo := mk2(OpOr, 8, mkConst(8, 0x80), mk2(OpAnd, 8, x.t, mkConst(8, 0x3f)))
					out = append(out, mkval(hi, types.Uint8), mkval(lo, types.Uint8))
				}
			default:
				emit(fmt.Sprintf("%c", x))
			}
		case 'q':
			switch x := arg.v.(type) {
			case string:
				emit(strconv.Quote(x))
			default:
				panic(unsupported("Sprintf %q of non-constant"))
			}
		default:
			panic(unsupported("Sprintf verb %" + string(verb)))
		}
	}
	return normStr(symstr(out))
}

// decimalOf renders a symbolic integer in decimal, forking on the number of digits.
func decimalOf(fr *frame, x sym) []value {
	ps := fr.path()
	w := x.t.w
	t := x.t
	var out []value
	if kindSigned(x.k) {
		if ps.branch(fr, mk2(OpSlt, 0, t, mkConst(w, 0))) {
			out = append(out, byte('-'))
			t = mk1(OpNeg, w, t)
		}
	}
	maxDigits := 3
	switch w {
	case 16:
		maxDigits = 5
	case 32:
		maxDigits = 10
	case 64:
		maxDigits = 20
	}
	n := 1
	pow := uint64(10)
	for n < maxDigits {
		if ps.branch(fr, mk2(OpUlt, 0, t, mkConst(w, pow))) {
			break
		}
		n++
		if pow > (1<<63)/5 {
			break
		}
		pow *= 10
	}
	digits := make([]value, n)
	cur := t
	for k := n - 1; k >= 0; k-- {
		d := mk2(OpURem, w, cur, mkConst(w, 10))
		cur = mk2(OpUDiv, w, cur, mkConst(w, 10))
		var d8 *Term
		if w > 8 {
			d8 = mk1(OpTrunc, 8, d)
		} else {
			d8 = d
		}
		digits[k] = mkval(mk2(OpAdd, 8, d8, mkConst(8, '0')), types.Uint8)
	}
	return append(out, digits...)
}

// strconv.Unquote: concrete strings only (used by harness oracles).
func extUnquote(fr *frame, args []value) value {
	cs, ok := args[0].(string)
	if !ok {
		panic(unsupported("strconv.Unquote on a symbolic string"))
	}
	v, err := strconv.Unquote(cs)
	if err != nil {
		return tuple{"", fr.errValue(err.Error())}
	}
	return tuple{v, iface{}}
}

// ---- unicode / utf8 / bytes helpers with concretisation ------------------------------
//
// Pure functions of one rune or byte: a symbolic argument is concretised (the path
// forks over the feasible values of the argument, at most 256 for a byte) and the real
// function is applied to each value.

func runeArg(fr *frame, v value) rune {
	switch x := v.(type) {
	case sym:
		return rune(fr.path().concretize(fr, x))
	case int32:
		return x
	}
	panic(fmt.Sprintf("rune argument %T", v))
}

func init() {
	pred := func(f func(rune) bool) externalFn {
		return func(fr *frame, args []value) value { return f(runeArg(fr, args[0])) }
	}
	conv := func(f func(rune) rune) externalFn {
		return func(fr *frame, args []value) value { return f(runeArg(fr, args[0])) }
	}
	for k, v := range map[string]externalFn{
		"unicode.IsLetter":       pred(unicode.IsLetter),
		"unicode.IsDigit":        pred(unicode.IsDigit),
		"unicode.IsNumber":       pred(unicode.IsNumber),
		"unicode.IsSpace":        pred(unicode.IsSpace),
		"unicode.IsUpper":        pred(unicode.IsUpper),
		"unicode.IsLower":        pred(unicode.IsLower),
		"unicode.IsPunct":        pred(unicode.IsPunct),
		"unicode.IsControl":      pred(unicode.IsControl),
		"unicode.IsPrint":        pred(unicode.IsPrint),
		"unicode.IsGraphic":      pred(unicode.IsGraphic),
		"unicode.IsSymbol":       pred(unicode.IsSymbol),
		"unicode.ToLower":        conv(unicode.ToLower),
		"unicode.ToUpper":        conv(unicode.ToUpper),
		"unicode/utf8.RuneLen":   func(fr *frame, args []value) value { return utf8.RuneLen(runeArg(fr, args[0])) },
		"unicode/utf8.ValidRune": func(fr *frame, args []value) value { return utf8.ValidRune(runeArg(fr, args[0])) },
	} {
		externals[k] = v
	}
}
