package interp

// Static-memory write monitor: everything reachable from package-level
// variables after package initialisation is "static". Stores into static
// memory performed while a path runs are recorded (who wrote, where) and
// undone when the path ends, so that interpreter instances can be reused.

import (
	"sort"
	"unsafe"

	"golang.org/x/tools/go/ssa"
)

const valueSize = unsafe.Sizeof(value(nil))

type memRange struct {
	lo, hi  uintptr
	owner   string // package-level variable it is reachable from
	harness bool   // owner belongs to the harness package
}

type staticWrite struct {
	Owner         string `json:"owner"`
	OwnerHarness  bool   `json:"owner_harness"`
	Writer        string `json:"writer"`
	WriterHarness bool   `json:"writer_harness"`
	Site          string `json:"site"`
}

type undoEntry struct {
	addr *value
	old  value
}

type staticMem struct {
	active bool
	ranges []memRange
	maps   map[interface{}]memRange // static map objects (by identity)
	keep   []interface{}            // keeps static objects alive
	undo   []undoEntry
	dirty  bool // a static map was modified: the interpreter must be rebuilt
}

func (sm *staticMem) build(i *interpreter) {
	sm.maps = make(map[interface{}]memRange)
	seen := make(map[uintptr]bool)
	var names []*ssa.Global
	for g := range i.globals {
		names = append(names, g)
	}
	sort.Slice(names, func(a, b int) bool { return names[a].String() < names[b].String() })
	for _, g := range names {
		cell := i.globals[g]
		owner := g.String()
		harness := g.Pkg == i.mainPkg
		sm.addCells(unsafe.Pointer(cell), 1, owner, harness, seen)
		sm.keep = append(sm.keep, cell)
		sm.walk(*cell, owner, harness, seen)
	}
	sort.Slice(sm.ranges, func(a, b int) bool { return sm.ranges[a].lo < sm.ranges[b].lo })
	// merge overlapping ranges (sub-slices of one backing array)
	var out []memRange
	for _, r := range sm.ranges {
		if n := len(out); n > 0 && r.lo < out[n-1].hi {
			if r.hi > out[n-1].hi {
				out[n-1].hi = r.hi
			}
			continue
		}
		out = append(out, r)
	}
	sm.ranges = out
	sm.active = true
}

func (sm *staticMem) addCells(p unsafe.Pointer, n int, owner string, harness bool, seen map[uintptr]bool) bool {
	if p == nil || n == 0 {
		return false
	}
	lo := uintptr(p)
	if seen[lo] {
		return false
	}
	seen[lo] = true
	sm.ranges = append(sm.ranges, memRange{lo, lo + uintptr(n)*valueSize, owner, harness})
	return true
}

func (sm *staticMem) walk(v value, owner string, harness bool, seen map[uintptr]bool) {
	switch v := v.(type) {
	case structure:
		sm.walkCells([]value(v), owner, harness, seen)
	case array:
		sm.walkCells([]value(v), owner, harness, seen)
	case []value:
		sm.walkCells(v[:cap(v)], owner, harness, seen)
	case *value:
		if v != nil && sm.addCells(unsafe.Pointer(v), 1, owner, harness, seen) {
			sm.keep = append(sm.keep, v)
			sm.walk(*v, owner, harness, seen)
		}
	case iface:
		sm.walk(v.v, owner, harness, seen)
	case tuple:
		for _, e := range v {
			sm.walk(e, owner, harness, seen)
		}
	case *closure:
		if v != nil {
			for _, e := range v.Env {
				sm.walk(e, owner, harness, seen)
			}
		}
	case map[value]value:
		if v != nil {
			sm.maps[mapIdent(v)] = memRange{owner: owner, harness: harness}
			sm.keep = append(sm.keep, v)
			for _, e := range v {
				sm.walk(e, owner, harness, seen)
			}
		}
	case *hashmap:
		if v != nil {
			sm.maps[v] = memRange{owner: owner, harness: harness}
			for _, e := range v.table {
				for ; e != nil; e = e.next {
					sm.walk(e.value, owner, harness, seen)
				}
			}
		}
	case *smap:
		if v != nil {
			sm.maps[v] = memRange{owner: owner, harness: harness}
			for _, e := range v.vals {
				sm.walk(e, owner, harness, seen)
			}
		}
	}
}

func (sm *staticMem) walkCells(cells []value, owner string, harness bool, seen map[uintptr]bool) {
	if cap(cells) == 0 {
		return
	}
	cells = cells[:cap(cells)]
	if !sm.addCells(unsafe.Pointer(unsafe.SliceData(cells)), len(cells), owner, harness, seen) {
		return
	}
	sm.keep = append(sm.keep, cells)
	for _, e := range cells {
		switch e.(type) {
		case structure, array, []value, *value, iface, tuple, *closure, map[value]value, *hashmap, *smap:
			sm.walk(e, owner, harness, seen)
		}
	}
}

func mapIdent(m map[value]value) interface{} {
	return *(*unsafe.Pointer)(unsafe.Pointer(&m))
}

func (sm *staticMem) find(p uintptr) *memRange {
	r := sm.ranges
	lo, hi := 0, len(r)
	for lo < hi {
		m := (lo + hi) / 2
		if r[m].hi <= p {
			lo = m + 1
		} else {
			hi = m
		}
	}
	if lo < len(r) && r[lo].lo <= p && p < r[lo].hi {
		return &r[lo]
	}
	return nil
}

func (i *interpreter) noteWrite(r *memRange, fr *frame) {
	ps := i.ps
	if ps == nil {
		return
	}
	wh := false
	name, site := "?", "?"
	if fr != nil && fr.fn != nil {
		wh = i.info(fr.fn).isHarness
		name, site = fr.fn.String(), fr.site()
	}
	if !wh && !r.harness {
		ps.libStaticWrites++
	}
	if len(ps.staticWrites) < 64 {
		ps.staticWrites = append(ps.staticWrites, staticWrite{r.owner, r.harness, name, wh, site})
	}
}

func (i *interpreter) noteCellWrite(addr *value, fr *frame) {
	if i.ps == nil {
		return
	}
	if r := i.static.find(uintptr(unsafe.Pointer(addr))); r != nil {
		i.static.undo = append(i.static.undo, undoEntry{addr, *addr})
		i.noteWrite(r, fr)
	}
}

func (i *interpreter) noteSliceWrite(s []value, from, to int, fr *frame) {
	if !i.static.active || i.ps == nil || len(s) == 0 {
		return
	}
	for k := from; k < to && k < len(s); k++ {
		i.noteCellWrite(&s[k], fr)
	}
}

func (i *interpreter) noteMapWrite(m interface{}, fr *frame) {
	if !i.static.active || i.ps == nil {
		return
	}
	id := m
	if mm, ok := m.(map[value]value); ok {
		id = mapIdent(mm)
	}
	if r, ok := i.static.maps[id]; ok {
		i.static.dirty = true
		i.noteWrite(&r, fr)
	}
}

// restore undoes the static writes of the finished path.
func (sm *staticMem) restore() {
	for k := len(sm.undo) - 1; k >= 0; k-- {
		*sm.undo[k].addr = sm.undo[k].old
	}
	sm.undo = sm.undo[:0]
}
