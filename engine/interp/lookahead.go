package interp

// Switch reconstruction (DESIGN.md 1.3). go/ssa lowers ragel's `switch data[p]` and
// range tests to chains of blocks that only reload the same byte and compare it. When
// a branch condition is a function of one pure 8-bit variable, the engine does not fork
// at the condition: it walks the chain of side-effect-free compare blocks for every
// value of the variable's current domain and forks once per distinct *target* (the
// first block that does anything else). 'A'..'Z' and 'a'..'z' reaching the same state
// are then one path, not two; a case-insensitive keyword is one path, not 2^len.
//
// Only register-writing, non-panicking instructions are executed ahead of time
// (FieldAddr, IndexAddr, loads, BinOp, Convert, ...); they are executed in the real
// frame, symbolically (their results are terms over the variable, valid for every
// value), so a target block finds the registers of the skipped blocks in place.
// Anything that would fork, concretise, panic or touch memory ends the look-ahead at
// that block, which becomes a target and is executed normally.

import (
	"fmt"
	"go/token"

	"golang.org/x/tools/go/ssa"
)

type specAbort struct{}

var LookaheadDebug bool

type laLeaf struct {
	b, p *ssa.BasicBlock
	dom  dom256
}

// specStatic: can the block be executed ahead of time as far as its instruction
// kinds are concerned? (cached per block)
func (i *interpreter) specStatic(b *ssa.BasicBlock) bool {
	if v, ok := i.specOK[b]; ok {
		return v
	}
	ok := true
	n := len(b.Instrs)
	for k, in := range b.Instrs {
		switch in := in.(type) {
		case *ssa.FieldAddr, *ssa.IndexAddr, *ssa.Convert, *ssa.ChangeType, *ssa.Field, *ssa.DebugRef:
		case *ssa.UnOp:
			if in.Op == token.ARROW {
				ok = false
			}
		case *ssa.BinOp:
			switch in.Op {
			case token.QUO, token.REM, token.SHL, token.SHR:
				ok = false
			}
		case *ssa.If, *ssa.Jump:
			if k != n-1 {
				ok = false
			}
		default:
			ok = false // Phi, Store, Call, Alloc, Return, ...
		}
		if !ok {
			break
		}
	}
	if i.specOK == nil {
		i.specOK = map[*ssa.BasicBlock]bool{}
	}
	i.specOK[b] = ok
	return ok
}

// specRun executes the non-terminator instructions of b; false if anything unusual
// happened (the block is then a target).
func (ps *pathState) specRun(fr *frame, b *ssa.BasicBlock) (ok bool) {
	saveBlock, savePrev, saveInstr := fr.block, fr.prevBlock, fr.curInstr
	ps.spec = true
	defer func() {
		ps.spec = false
		fr.block, fr.prevBlock, fr.curInstr = saveBlock, savePrev, saveInstr
		if r := recover(); r != nil {
			if ea, isAbort := r.(engineAbort); isAbort && (ea.kind == abortFuel || ea.kind == abortInternal) {
				panic(r)
			}
			ok = false
		}
	}()
	fr.block = b
	for _, in := range b.Instrs[:len(b.Instrs)-1] {
		fr.curInstr = in
		visitInstr(fr, in)
	}
	ps.instrs += int64(len(b.Instrs))
	if ps.instrs > ps.fuel {
		panic(engineAbort{kind: abortFuel, msg: "instruction budget exhausted in " + fr.fn.String() + " at " + fr.site()})
	}
	return true
}

// lookahead decides the If at the end of fr.block whose condition c depends on one
// pure 8-bit variable. It returns the block to continue with and its predecessor.
func (ps *pathState) lookahead(fr *frame, c *Term) (nb, np *ssa.BasicBlock, ok bool) {
	if ps.eng.NoLookahead || c.isConst() || c.sv < 0 {
		return nil, nil, false
	}
	v := ps.vars[c.sv]
	if v.w != 8 || !v.pure() {
		if LookaheadDebug {
			fmt.Println("LA-skip impure", fr.site(), v.name, v.id, v.w)
		}
		return nil, nil, false
	}

	var leaves []laLeaf
	done := map[*ssa.BasicBlock]bool{}
	addLeaf := func(b, p *ssa.BasicBlock, d dom256) {
		hasPhi := false
		if len(b.Instrs) > 0 {
			_, hasPhi = b.Instrs[0].(*ssa.Phi)
		}
		for k := range leaves {
			if leaves[k].b == b && (!hasPhi || leaves[k].p == p || phisAgree(fr, b, leaves[k].p, p)) {
				leaves[k].dom = leaves[k].dom.or(d)
				return
			}
		}
		leaves = append(leaves, laLeaf{b, p, d})
	}
	split := func(t *Term, d dom256) (dt, df dom256) {
		for w := 0; w < 4; w++ {
			bitsw := d[w]
			for bitsw != 0 {
				b := bitsw & (-bitsw)
				bitsw &^= b
				if ps.ev.evalSingle(t, uint64(w*64+trailing(b))) != 0 {
					dt[w] |= b
				} else {
					df[w] |= b
				}
			}
		}
		return
	}
	var walk func(b, p *ssa.BasicBlock, d dom256, depth int)
	walk = func(b, p *ssa.BasicBlock, d dom256, depth int) {
		if d.empty() {
			return
		}
		if depth > 200 || !fr.i.specStatic(b) {
			addLeaf(b, p, d)
			return
		}
		if !done[b] {
			if !ps.specRun(fr, b) {
				addLeaf(b, p, d)
				return
			}
			done[b] = true
		}
		switch t := b.Instrs[len(b.Instrs)-1].(type) {
		case *ssa.Jump:
			walk(b.Succs[0], b, d, depth+1)
		case *ssa.If:
			switch cv := fr.get(t.Cond).(type) {
			case bool:
				if cv {
					walk(b.Succs[0], b, d, depth+1)
				} else {
					walk(b.Succs[1], b, d, depth+1)
				}
			case sym:
				if cv.t.isConst() {
					if cv.t.k != 0 {
						walk(b.Succs[0], b, d, depth+1)
					} else {
						walk(b.Succs[1], b, d, depth+1)
					}
					return
				}
				if cv.t.sv != int32(v.id) {
					addLeaf(b, p, d)
					return
				}
				dt, df := split(cv.t, d)
				walk(b.Succs[0], b, dt, depth+1)
				walk(b.Succs[1], b, df, depth+1)
			default:
				addLeaf(b, p, d)
			}
		default:
			addLeaf(b, p, d)
		}
	}
	ps.st.domQ++
	dt, df := split(c, v.dom)
	cur := fr.block
	walk(cur.Succs[0], cur, dt, 0)
	walk(cur.Succs[1], cur, df, 0)
	switch len(leaves) {
	case 0:
		panic(engineAbort{abortInfeasible, "empty domain at " + fr.site()})
	case 1:
		return leaves[0].b, leaves[0].p, true
	}
	if LookaheadDebug {
		msg := "LA " + fr.site() + ":"
		for _, l := range leaves {
			_, hp := l.b.Instrs[0].(*ssa.Phi)
			msg += fmt.Sprintf(" [b%d<-b%d phi=%v n=%d first=%T spec=%v dom=%d]", l.b.Index, l.p.Index, hp, len(l.b.Instrs), l.b.Instrs[0], fr.i.specStatic(l.b), l.dom.count())
		}
		fmt.Println(msg)
	}
	k := 0
	if d, has := ps.nextPrefix(); has {
		k = int(d.val)
		if d.kind != decSwitch || k < 0 || k >= len(leaves) || leaves[k].dom != d.dom {
			panic(engineAbort{abortInternal, "decision vector out of sync at a reconstructed switch (" + fr.site() + ")"})
		}
		ps.apply(d, nil)
	} else {
		for j := 1; j < len(leaves); j++ {
			ps.fork(fr, decision{kind: decSwitch, hasDom: true, v: int32(v.id), dom: leaves[j].dom, val: int64(j)})
		}
		ps.apply(decision{kind: decSwitch, hasDom: true, v: int32(v.id), dom: leaves[0].dom, val: 0}, nil)
	}
	return leaves[k].b, leaves[k].p, true
}

// phisAgree: every phi of b receives the same value from predecessors p1 and p2.
func phisAgree(fr *frame, b, p1, p2 *ssa.BasicBlock) bool {
	i1, i2 := -1, -1
	for k, p := range b.Preds {
		if p == p1 && i1 < 0 {
			i1 = k
		}
		if p == p2 && i2 < 0 {
			i2 = k
		}
	}
	if i1 < 0 || i2 < 0 {
		return false
	}
	for _, in := range b.Instrs {
		phi, ok := in.(*ssa.Phi)
		if !ok {
			break
		}
		e1, e2 := phi.Edges[i1], phi.Edges[i2]
		if e1 == e2 {
			continue
		}
		if !scalarEq(fr.get(e1), fr.get(e2)) {
			return false
		}
	}
	return true
}

func scalarEq(a, b value) bool {
	switch a := a.(type) {
	case bool:
		y, ok := b.(bool)
		return ok && a == y
	case int:
		y, ok := b.(int)
		return ok && a == y
	case int8:
		y, ok := b.(int8)
		return ok && a == y
	case int16:
		y, ok := b.(int16)
		return ok && a == y
	case int32:
		y, ok := b.(int32)
		return ok && a == y
	case int64:
		y, ok := b.(int64)
		return ok && a == y
	case uint:
		y, ok := b.(uint)
		return ok && a == y
	case uint8:
		y, ok := b.(uint8)
		return ok && a == y
	case uint16:
		y, ok := b.(uint16)
		return ok && a == y
	case uint32:
		y, ok := b.(uint32)
		return ok && a == y
	case uint64:
		y, ok := b.(uint64)
		return ok && a == y
	case sym:
		y, ok := b.(sym)
		return ok && a.t == y.t && a.k == y.k
	}
	return false
}
