package interp

// Harness intrinsics: functions of the harness package (package main, overlaid at
// the root of /repo) that the engine intercepts by name. Natively the same
// functions have ordinary Go bodies that read the witness (see harness/rt.go).

import (
	"fmt"
	"go/types"
	"unsafe"
)

type intrinsicFn func(fr *frame, args []value) value

var intrinsics map[string]intrinsicFn

func init() {
	intrinsics = map[string]intrinsicFn{
		"NondetByte":      inNondetByte,
		"NondetInt":       inNondetInt,
		"NondetUint64":    inNondetUint64,
		"NondetBool":      inNondetBool,
		"Choose":          inChoose,
		"Assume":          inAssume,
		"Assert":          inAssert,
		"Fail":            inFail,
		"B2I":             inB2I,
		"And":             inAnd,
		"Or":              inOr,
		"Not":             inNot,
		"IteInt":          inIteInt,
		"IteByte":         inIteInt,
		"Observe":         inObserve,
		"ObserveBytes":    inObserveBytes,
		"ObserveStr":      inObserveBytes,
		"Cover":           inCover,
		"ParamInt":        inParamInt,
		"ParamStr":        inParamStr,
		"SliceOff":        inSliceOff,
		"SamePtr":         inSamePtr,
		"SameArray":       inSameArray,
		"IsSymbolic":      inIsSymbolic,
		"LibStaticWrites": inLibStaticWrites,
		"StaticWriteInfo": inStaticWriteInfo,
		"EndPath":         inEndPath,
		"WrotePrint":      func(fr *frame, args []value) value { return fr.path().wrotePrint },
		"Concretize":      inConcretize,
		"ConcretizeByte":  inConcretize,
		"InEngine":        func(fr *frame, args []value) value { return true },
	}
}

func inNondetByte(fr *frame, args []value) value {
	ps := fr.path()
	return sym{ps.newVar(8, "b"), types.Uint8}
}

func inNondetInt(fr *frame, args []value) value {
	ps := fr.path()
	return sym{ps.newVar(64, "i"), types.Int}
}

func inNondetUint64(fr *frame, args []value) value {
	ps := fr.path()
	return sym{ps.newVar(64, "u"), types.Uint64}
}

func inNondetBool(fr *frame, args []value) value {
	return fr.path().choose(fr, 2) == 1
}

func inChoose(fr *frame, args []value) value {
	n := args[0]
	if isSym(n) {
		panic(unsupported("Choose with symbolic bound"))
	}
	return fr.path().choose(fr, int(asInt64(n)))
}

func inAssume(fr *frame, args []value) value {
	fr.path().assume(fr, boolTerm(args[0]))
	return nil
}

func inAssert(fr *frame, args []value) value {
	fr.path().assert(fr, args[0].(string), boolTerm(args[1]))
	return nil
}

func inFail(fr *frame, args []value) value {
	ps := fr.path()
	msg := ""
	if s, ok := args[1].(string); ok {
		msg = s
	} else if ss, ok := args[1].(symstr); ok {
		msg = fmt.Sprintf("<%d symbolic bytes>", len(ss))
	}
	ps.failures = append(ps.failures, Failure{ID: args[0].(string), Msg: msg, Site: callerSite(fr), Witness: nil})
	return nil
}

func inB2I(fr *frame, args []value) value {
	t := boolTerm(args[0])
	return mkval(mkIte(t, mkConst(64, 1), mkConst(64, 0)), types.Int)
}

func inAnd(fr *frame, args []value) value {
	return mkval(mkAnd(boolTerm(args[0]), boolTerm(args[1])), types.Bool)
}

func inOr(fr *frame, args []value) value {
	return mkval(mkOr(boolTerm(args[0]), boolTerm(args[1])), types.Bool)
}

func inNot(fr *frame, args []value) value {
	return mkval(mkNot(boolTerm(args[0])), types.Bool)
}

func inIteInt(fr *frame, args []value) value {
	c := boolTerm(args[0])
	a, ka, _ := termOf(args[1])
	b, _, _ := termOf(args[2])
	return mkval(mkIte(c, a, b), ka)
}

func inObserve(fr *frame, args []value) value {
	ps := fr.path()
	ps.obs = append(ps.obs, obsEntry{tag: args[0].(string), vals: []value{args[1]}})
	return nil
}

func inObserveBytes(fr *frame, args []value) value {
	ps := fr.path()
	var vals []value
	switch b := args[1].(type) {
	case []value:
		vals = append(vals, b...)
	case string:
		for k := 0; k < len(b); k++ {
			vals = append(vals, b[k])
		}
	case symstr:
		vals = append(vals, b...)
	}
	ps.obs = append(ps.obs, obsEntry{tag: args[0].(string), vals: vals, str: true})
	return nil
}

func inCover(fr *frame, args []value) value {
	fr.path().covers[args[0].(string)] = true
	return nil
}

func inParamInt(fr *frame, args []value) value {
	ps := fr.path()
	v, ok := ps.job.Params[args[0].(string)]
	if !ok {
		panic(engineAbort{abortInternal, "missing int parameter " + args[0].(string)})
	}
	switch v := v.(type) {
	case int:
		return v
	case int64:
		return int(v)
	case float64:
		return int(v)
	}
	panic(engineAbort{abortInternal, fmt.Sprintf("parameter %s is %T, not int", args[0], v)})
}

func inParamStr(fr *frame, args []value) value {
	ps := fr.path()
	v, ok := ps.job.Params[args[0].(string)]
	if !ok {
		panic(engineAbort{abortInternal, "missing string parameter " + args[0].(string)})
	}
	s, ok := v.(string)
	if !ok {
		panic(engineAbort{abortInternal, fmt.Sprintf("parameter %s is %T, not string", args[0], v)})
	}
	return s
}

// SliceOff(base, s []byte) int: offset of s's first cell inside base's backing
// array (0 <= off <= cap(base)) or -1 when s does not alias base. Exact provenance.
func inSliceOff(fr *frame, args []value) value {
	base := args[0].([]value)
	s := args[1].([]value)
	if cap(base) == 0 || s == nil {
		return -1
	}
	if cap(s) == 0 {
		// a zero-capacity slice still carries its data pointer
		pb := uintptr(unsafe.Pointer(unsafe.SliceData(base)))
		p := uintptr(unsafe.Pointer(unsafe.SliceData(s)))
		if p >= pb && p <= pb+uintptr(cap(base))*valueSize {
			return int((p - pb) / valueSize)
		}
		return -1
	}
	pb := uintptr(unsafe.Pointer(unsafe.SliceData(base)))
	p := uintptr(unsafe.Pointer(unsafe.SliceData(s)))
	if p < pb || p > pb+uintptr(cap(base))*valueSize {
		return -1
	}
	return int((p - pb) / valueSize)
}

func inSamePtr(fr *frame, args []value) value {
	a, ok1 := args[0].(iface)
	b, ok2 := args[1].(iface)
	if ok1 && ok2 {
		pa, _ := a.v.(*value)
		pb, _ := b.v.(*value)
		return pa == pb
	}
	return false
}

func inIsSymbolic(fr *frame, args []value) value {
	x := args[0]
	if i, ok := x.(iface); ok {
		x = i.v
	}
	switch v := x.(type) {
	case sym:
		return true
	case []value:
		for _, e := range v {
			if isSym(e) {
				return true
			}
		}
	case symstr:
		return true
	}
	return false
}

func inLibStaticWrites(fr *frame, args []value) value {
	return fr.path().libStaticWrites
}

func inEndPath(fr *frame, args []value) value {
	panic(engineAbort{abortEnd, ""})
}

// Concretize(x) forks over the feasible values of x and returns a concrete value.
func inConcretize(fr *frame, args []value) value {
	if s, ok := args[0].(sym); ok {
		return concreteOfKind(s.k, uint64(fr.path().concretize(fr, s)))
	}
	return args[0]
}

// SameArray(a, b): both are element pointers into the same abstract array.
func inSameArray(fr *frame, args []value) value {
	a, ok1 := args[0].(iface)
	b, ok2 := args[1].(iface)
	if !ok1 || !ok2 {
		return false
	}
	pa, ok1 := a.v.(absPtr)
	pb, ok2 := b.v.(absPtr)
	if ok1 && ok2 {
		return pa.obj == pb.obj
	}
	if ok1 != ok2 {
		return false
	}
	panic(unsupported("SameArray on concrete pointers"))
}

// StaticWriteInfo(): description of the first write to static memory performed by
// library code on this path ("" if none).
func inStaticWriteInfo(fr *frame, args []value) value {
	k := int(asInt64(args[0]))
	for _, w := range fr.path().staticWrites {
		if !w.WriterHarness && !w.OwnerHarness {
			if k == 0 {
				return shortName(w.Owner) + " written by " + shortName(w.Writer)
			}
			k--
		}
	}
	return "(write not recorded)"
}

func shortName(s string) string {
	const p = "github.com/z7zmey/php-parser/"
	out := ""
	for len(s) > 0 {
		if len(s) >= len(p) && s[:len(p)] == p {
			s = s[len(p):]
			continue
		}
		out += s[:1]
		s = s[1:]
	}
	return out
}
