package interp

// Path exploration by re-execution from decision vectors.

import (
	"fmt"
	"go/token"
	"go/types"
	"runtime"
	"sort"
	"strings"
	"sync"
	"sync/atomic"
	"time"

	"golang.org/x/tools/go/ssa"
)

// ---- aborts -------------------------------------------------------------------

type abortKind int

const (
	abortFuel        abortKind = iota // instruction budget / call depth exhausted  -> HANG
	abortUnsupported                  // construct outside the engine's model       -> inconclusive
	abortInternal                     // Go panic inside the interpreter            -> engine error
	abortAssume                       // an assumption is infeasible                -> path discarded
	abortEnd                          // harness asked to end the path normally
	abortInfeasible                   // path condition became unsatisfiable
)

type engineAbort struct {
	kind abortKind
	msg  string
}

func unsupported(msg string) engineAbort { return engineAbort{abortUnsupported, msg} }

func isEngineAbort(r interface{}) bool {
	_, ok := r.(engineAbort)
	return ok
}

// ---- decisions ------------------------------------------------------------------

type decKind uint8

const (
	decBranch decKind = iota // If / internal branch: val = 1 (true) or 0
	decValue                 // concretisation / Choose: val = chosen value
	decAssume                // Assume / Assert continuation: val unused
	decSwitch                // reconstructed switch (lookahead.go): val = index of the target
)

type decision struct {
	kind   decKind
	hasDom bool
	v      int32 // variable whose domain was narrowed
	val    int64
	dom    dom256
}

// ---- variables -------------------------------------------------------------------

type symVar struct {
	id    int
	w     uint8
	name  string
	dom   dom256 // 8-bit variables only
	multi bool   // occurs in a constraint that went to the solver
}

// Outcome of one explored path.
type Outcome int

const (
	OutOK Outcome = iota
	OutPanic
	OutHang
	OutAssumed      // discarded: assumption false on this path
	OutInfeasible   // discarded: path condition unsatisfiable at the end
	OutUnsupported  // inconclusive: outside the engine's model
	OutEngineError  // engine defect
	OutInconclusive // solver unknown on the final check
)

func (o Outcome) String() string {
	return [...]string{"ok", "panic", "hang", "assumed-away", "infeasible", "unsupported", "engine-error", "inconclusive"}[o]
}

type Observation struct {
	Tag string `json:"tag"`
	Val string `json:"val"`
}

type Failure struct {
	ID      string   `json:"id"`
	Msg     string   `json:"msg,omitempty"`
	Site    string   `json:"site,omitempty"`
	Witness []uint64 `json:"witness"`
	// observations are not available for assertion witnesses (path not finished)
}

type PathResult struct {
	Job             *Job
	Outcome         Outcome
	Msg             string // panic message / hang site / unsupported reason
	Site            string // panic site (file:line)
	Func            string // function containing the site
	Stack           []string
	Witness         []uint64 // values of the nondet variables / choices in creation order
	Obs             []Observation
	Failures        []Failure
	Covers          []string
	Instrs          int64
	Decisions       int
	SymVars         int
	Approx          bool // an approximate stub result influenced the path
	StaticWrites    []staticWrite
	LibStaticWrites int
}

type Job struct {
	Entry    string
	Params   map[string]interface{} // int or string
	Fuel     int64
	MaxPaths int64
	Tag      string
	NoReplay bool // witnesses are not physically realisable natively (abstract arrays of arbitrary size)
}

type Stats struct {
	Paths        int64
	ByOutcome    map[string]int64
	Forks        int64
	Instrs       int64
	Z3Queries    int64
	Z3Seconds    float64
	Z3Slowest    float64
	Z3Errors     int64
	DomQueries   int64
	DomRechecked int64
	DomDisagree  int64
	Obligations  int64
	Discharged   int64
	Truncated    bool
	Funcs        map[string]int64
	WallSeconds  float64
}

// Engine holds the SSA program and the worker pool.
type Engine struct {
	prog        *ssa.Program
	mainPkg     *ssa.Package
	sizes       types.Sizes
	Workers     int
	SolverCmd   string
	TimeoutMs   int
	Z3All       bool    // send every single-variable decision to z3 as well
	Recheck     float64 // fraction of domain decisions re-checked by z3
	Seed        int64
	FinalZ3     bool // confirm every path condition with the solver at the end of the path
	NoLookahead bool // disable switch reconstruction (fork at every compare)
	QueryLog    *lockedWriter

	mu      sync.Mutex
	interps []*interpreter
}

type pathState struct {
	eng             *Engine
	i               *interpreter
	job             *Job
	slv             *solver
	prefix          []decision
	decisions       []decision
	vars            []*symVar
	pc              []*Term
	ev              evaluator
	fuel            int64
	instrs          int64
	obs             []obsEntry
	failures        []Failure
	covers          map[string]bool
	approx          bool
	wrotePrint      bool
	nAbs            int
	forks           []([]decision) // alternatives discovered on this path
	funcs           map[*ssa.Function]int64
	staticWrites    []staticWrite
	libStaticWrites int
	choiceLog       []uint64 // values of Choose/NondetBool in order (part of the witness)
	witnessOrder    []witnessSlot
	st              *workerStats
	rng             uint64
	lastFn          *ssa.Function
	spec            bool // executing side-effect-free blocks ahead of time (lookahead.go)
}

type witnessSlot struct {
	isVar bool
	v     int    // var id
	val   uint64 // concrete choice value
}

type obsEntry struct {
	tag  string
	vals []value // ints/bytes, possibly symbolic
	str  bool
}

type workerStats struct {
	forks, domQ, domRe, domDis, oblig, disch int64
}

func (ps *pathState) noteFunc(fn *ssa.Function) {
	if fn != ps.lastFn {
		ps.lastFn = fn
		ps.funcs[fn]++
	}
}

func (ps *pathState) newVar(w uint8, name string) *Term {
	v := &symVar{id: len(ps.vars), w: w, name: name, dom: fullDom}
	ps.vars = append(ps.vars, v)
	ps.witnessOrder = append(ps.witnessOrder, witnessSlot{isVar: true, v: v.id})
	return &Term{op: OpVar, w: w, k: uint64(v.id), sv: int32(v.id), size: 1}
}

// ---- constraint bookkeeping ---------------------------------------------------------

// splitDom evaluates the single-8-bit-variable condition c over the variable's
// current domain.
func (ps *pathState) splitDom(c *Term) (v *symVar, dt, df dom256, ok bool) {
	if c.sv < 0 {
		return nil, dt, df, false
	}
	v = ps.vars[c.sv]
	if v.w != 8 {
		return nil, dt, df, false
	}
	for w := 0; w < 4; w++ {
		bitsw := v.dom[w]
		for bitsw != 0 {
			b := bitsw & (-bitsw)
			bitsw &^= b
			val := w*64 + trailing(b)
			if ps.ev.evalSingle(c, uint64(val)) != 0 {
				dt[w] |= b
			} else {
				df[w] |= b
			}
		}
	}
	return v, dt, df, true
}

func trailing(b uint64) int {
	n := 0
	for b&1 == 0 {
		b >>= 1
		n++
	}
	return n
}

// addConstraint records that c holds from now on.
func (ps *pathState) addPC(c *Term) {
	ps.pc = append(ps.pc, c)
	set := map[int]bool{}
	collectVars(c, set, map[*Term]bool{})
	for id := range set {
		ps.vars[id].multi = true
	}
}

// script renders the current path condition (domains + pc + extra) as SMT-LIB.
func (ps *pathState) script(extra ...*Term) (string, []string) {
	var sb strings.Builder
	names := make([]string, len(ps.vars))
	for _, v := range ps.vars {
		names[v.id] = varName(v.id)
		fmt.Fprintf(&sb, "(declare-const %s %s)\n", names[v.id], sortName(v.w))
		if v.w == 8 && v.dom != fullDom {
			rs := v.dom.ranges()
			if len(rs) == 0 {
				sb.WriteString("(assert false)\n")
				continue
			}
			sb.WriteString("(assert (or")
			for _, r := range rs {
				if r[0] == r[1] {
					fmt.Fprintf(&sb, " (= %s %s)", names[v.id], constSMT(8, uint64(r[0])))
				} else {
					fmt.Fprintf(&sb, " (and (bvule %s %s) (bvule %s %s))", constSMT(8, uint64(r[0])), names[v.id], names[v.id], constSMT(8, uint64(r[1])))
				}
			}
			if len(rs) == 1 {
				sb.WriteString(" false")
			}
			sb.WriteString("))\n")
		}
	}
	p := &smtPrinter{sb: &sb, names: map[*Term]string{}, pfx: "t"}
	for _, c := range ps.pc {
		r := p.ref(c)
		fmt.Fprintf(&sb, "(assert %s)\n", r)
	}
	for _, c := range extra {
		r := p.ref(c)
		fmt.Fprintf(&sb, "(assert %s)\n", r)
	}
	return sb.String(), names
}

// solve asks the solver whether PC ∧ extra is satisfiable.
func (ps *pathState) solve(wantModel bool, extra ...*Term) (satResult, []uint64) {
	sc, names := ps.script(extra...)
	var vars []string
	if wantModel {
		vars = names
	}
	res, model := ps.slv.query(sc, vars)
	if res != resSat || !wantModel {
		return res, nil
	}
	vals := make([]uint64, len(ps.vars))
	for i, n := range names {
		vals[i] = model[n]
	}
	return res, vals
}

// feasible decides whether PC ∧ c is satisfiable; exact for single-8-bit-variable
// conditions on variables that are not otherwise constrained through the solver.
func (ps *pathState) feasible(c *Term) (sat satResult) {
	res, _ := ps.solve(false, c)
	return res
}

// needSolverFor reports whether any constraint not expressible as a domain exists that
// could interact with variable v.
func (v *symVar) pure() bool { return !v.multi }

// ---- branch ----------------------------------------------------------------------

func (ps *pathState) nextPrefix() (decision, bool) {
	idx := len(ps.decisions)
	if idx < len(ps.prefix) {
		return ps.prefix[idx], true
	}
	return decision{}, false
}

func (ps *pathState) apply(d decision, c *Term) {
	// c is the constraint that holds after the decision
	if d.hasDom {
		ps.vars[d.v].dom = d.dom
	} else if c != nil && !c.isConst() {
		ps.addPC(c)
	}
	ps.decisions = append(ps.decisions, d)
}

// branch decides a symbolic condition, forking when both sides are feasible.
func (ps *pathState) branch(fr *frame, c *Term) bool {
	if ps.spec {
		panic(specAbort{})
	}
	if c.isConst() {
		return c.k != 0
	}
	if d, ok := ps.nextPrefix(); ok {
		if d.kind != decBranch {
			panic(engineAbort{abortInternal, fmt.Sprintf("decision vector out of sync at %d: want branch, have kind %d (%s)", len(ps.decisions), d.kind, fr.site())})
		}
		if d.val != 0 {
			ps.apply(d, c)
			return true
		}
		ps.apply(d, mkNot(c))
		return false
	}
	var dT, dF decision
	dT.kind, dF.kind = decBranch, decBranch
	dT.val, dF.val = 1, 0
	feasT, feasF := true, true
	if v, dt, df, ok := ps.splitDom(c); ok {
		ps.st.domQ++
		dT.hasDom, dT.v, dT.dom = true, int32(v.id), dt
		dF.hasDom, dF.v, dF.dom = true, int32(v.id), df
		feasT, feasF = !dt.empty(), !df.empty()
		if feasT && feasF && !v.pure() {
			// the variable also occurs in solver constraints: confirm both sides
			if ps.feasible(c) == resUnsat {
				feasT = false
			} else if ps.feasible(mkNot(c)) == resUnsat {
				feasF = false
			}
		} else if ps.eng.Z3All || ps.recheck() {
			ps.st.domRe++
			rt, rf := ps.feasible(c), ps.feasible(mkNot(c))
			if (rt == resSat) != feasT && rt != resUnknown && v.pure() {
				ps.st.domDis++
			}
			if (rf == resSat) != feasF && rf != resUnknown && v.pure() {
				ps.st.domDis++
			}
		}
	} else {
		rt := ps.feasible(c)
		if rt == resUnsat {
			feasT = false
		} else {
			rf := ps.feasible(mkNot(c))
			if rf == resUnsat {
				feasF = false
			}
			if rt == resUnknown || rf == resUnknown {
				ps.approxNote("solver unknown at branch " + fr.site())
			}
		}
	}
	switch {
	case feasT && feasF:
		ps.fork(fr, dF)
		ps.apply(dT, c)
		return true
	case feasT:
		ps.apply(dT, c)
		return true
	case feasF:
		ps.apply(dF, mkNot(c))
		return false
	}
	panic(engineAbort{abortInfeasible, "both branch sides infeasible at " + fr.site()})
}

func (ps *pathState) approxNote(msg string) {
	ps.approx = true
}

func (ps *pathState) recheck() bool {
	if ps.eng.Recheck <= 0 {
		return false
	}
	ps.rng = ps.rng*6364136223846793005 + 1442695040888963407
	return float64(ps.rng>>11)/float64(1<<53) < ps.eng.Recheck
}

var ForkLog func(kind string, site string)

func (ps *pathState) fork(fr *frame, alt decision) {
	if ForkLog != nil && fr != nil {
		ForkLog(fmt.Sprint(alt.kind), fr.fn.Name()+" "+fr.site())
	}
	n := len(ps.decisions)
	p := make([]decision, n+1)
	copy(p, ps.decisions)
	p[n] = alt
	ps.forks = append(ps.forks, p)
	ps.st.forks++
}

// assume constrains the path with c; the path ends if c is infeasible.
func (ps *pathState) assume(fr *frame, c *Term) {
	if ps.spec {
		panic(specAbort{})
	}
	if c.isConst() {
		if c.k == 0 {
			panic(engineAbort{abortAssume, "assumption false"})
		}
		return
	}
	if d, ok := ps.nextPrefix(); ok {
		if d.kind != decAssume {
			panic(engineAbort{abortInternal, fmt.Sprintf("decision vector out of sync at %d: want assume (%s)", len(ps.decisions), fr.site())})
		}
		ps.apply(d, c)
		return
	}
	d := decision{kind: decAssume}
	if v, dt, _, ok := ps.splitDom(c); ok {
		ps.st.domQ++
		if dt.empty() {
			panic(engineAbort{abortAssume, "assumption infeasible"})
		}
		d.hasDom, d.v, d.dom = true, int32(v.id), dt
		if !v.pure() && ps.feasible(c) == resUnsat {
			panic(engineAbort{abortAssume, "assumption infeasible"})
		}
	} else if ps.feasible(c) == resUnsat {
		panic(engineAbort{abortAssume, "assumption infeasible"})
	}
	ps.apply(d, c)
}

// obligation counts a proof obligation; discharged when PC ∧ ¬c is unsat.
// (Used for evidence; violation reporting is done by the caller through branch/assert.)
func (ps *pathState) obligation(fr *frame, what string, c *Term) {
	if ps.spec {
		panic(specAbort{})
	}
	if len(ps.decisions) < len(ps.prefix) {
		return // already counted by the path that discovered this prefix
	}
	ps.st.oblig++
	if c.isConst() {
		if c.k != 0 {
			ps.st.disch++
		}
		return
	}
	if ps.feasible(mkNot(c)) == resUnsat {
		ps.st.disch++
	}
}

// assert checks c on every input of the path; a counterexample is recorded as
// a failure with its witness, and the path continues under c.
func (ps *pathState) assert(fr *frame, id string, c *Term) {
	if ps.spec {
		panic(specAbort{})
	}
	if c.isConst() {
		if len(ps.decisions) >= len(ps.prefix) {
			ps.st.oblig++
			if c.k != 0 {
				ps.st.disch++
			}
		}
		if c.k == 0 {
			ps.failures = append(ps.failures, Failure{ID: id, Site: callerSite(fr), Witness: nil})
			panic(engineAbort{abortEnd, "assertion failed on the whole path"})
		}
		return
	}
	if d, ok := ps.nextPrefix(); ok {
		if d.kind != decAssume {
			panic(engineAbort{abortInternal, fmt.Sprintf("decision vector out of sync at %d: want assert (%s)", len(ps.decisions), fr.site())})
		}
		ps.apply(d, c)
		return
	}
	ps.st.oblig++
	d := decision{kind: decAssume}
	neg := mkNot(c)
	var res satResult
	var model []uint64
	decided := false
	if v, dt, df, ok := ps.splitDom(c); ok && v.pure() && !ps.eng.Z3All {
		ps.st.domQ++
		d.hasDom, d.v, d.dom = true, int32(v.id), dt
		if df.empty() {
			res = resUnsat
			decided = true
		}
		// a counterexample needs a full model: ask the solver below
	}
	if !decided {
		res, model = ps.solve(true, neg)
	}
	switch res {
	case resUnsat:
		ps.st.disch++
	case resSat:
		ps.failures = append(ps.failures, Failure{ID: id, Site: callerSite(fr), Witness: ps.witnessFrom(model)})
	default:
		ps.approx = true
		ps.failures = append(ps.failures, Failure{ID: "INCONCLUSIVE:" + id, Site: callerSite(fr)})
	}
	// continue under c if possible
	if d.hasDom {
		if d.dom.empty() {
			panic(engineAbort{abortEnd, "assertion fails on every input of the path"})
		}
	} else if res == resSat && ps.feasible(c) == resUnsat {
		panic(engineAbort{abortEnd, "assertion fails on every input of the path"})
	}
	ps.apply(d, c)
}

func callerSite(fr *frame) string {
	if fr.caller != nil {
		return fr.caller.site()
	}
	return "?"
}

// concretize forks over the feasible values of s and returns the chosen one.
func (ps *pathState) concretize(fr *frame, s sym) int64 {
	if ps.spec {
		panic(specAbort{})
	}
	signed := kindSigned(s.k)
	conv := func(u uint64) int64 {
		if signed {
			return sext64(u, s.t.w)
		}
		return int64(u)
	}
	if s.t.isConst() {
		return conv(s.t.k)
	}
	w := s.t.w
	if d, ok := ps.nextPrefix(); ok {
		if d.kind != decValue {
			panic(engineAbort{abortInternal, fmt.Sprintf("decision vector out of sync at %d: want value (%s)", len(ps.decisions), fr.site())})
		}
		ps.apply(d, mkEq(s.t, mkConst(w, uint64(d.val))))
		return conv(uint64(d.val))
	}
	type alt struct {
		val uint64
		dom dom256
	}
	var alts []alt
	if s.t.sv >= 0 && ps.vars[s.t.sv].w == 8 {
		v := ps.vars[s.t.sv]
		ps.st.domQ++
		byVal := map[uint64]*dom256{}
		for x := 0; x < 256; x++ {
			if !v.dom.has(x) {
				continue
			}
			r := ps.ev.evalSingle(s.t, uint64(x))
			if byVal[r] == nil {
				byVal[r] = &dom256{}
			}
			byVal[r].set(x)
		}
		for val, d := range byVal {
			alts = append(alts, alt{val, *d})
		}
		sort.Slice(alts, func(a, b int) bool { return alts[a].val < alts[b].val })
		if !v.pure() {
			// filter by the solver
			var keep []alt
			for _, a := range alts {
				if ps.feasible(mkEq(s.t, mkConst(w, a.val))) != resUnsat {
					keep = append(keep, a)
				}
			}
			alts = keep
		}
		if len(alts) == 0 {
			panic(engineAbort{abortInfeasible, "no feasible value at " + fr.site()})
		}
		for k := len(alts) - 1; k >= 1; k-- {
			ps.fork(fr, decision{kind: decValue, hasDom: true, v: int32(v.id), val: int64(alts[k].val), dom: alts[k].dom})
		}
		d := decision{kind: decValue, hasDom: true, v: int32(v.id), val: int64(alts[0].val), dom: alts[0].dom}
		ps.apply(d, nil)
		return conv(alts[0].val)
	}
	// general case: enumerate models with blocking clauses
	const maxVals = 64
	var vals []uint64
	var block []*Term
	for len(vals) <= maxVals {
		probe := &Term{op: OpVar, w: w, k: uint64(len(ps.vars)), sv: svMulti, size: 1}
		_ = probe
		res, model := ps.solve(true, block...)
		if res == resUnsat {
			break
		}
		if res != resSat {
			panic(unsupported("solver unknown while concretising at " + fr.site()))
		}
		val := ps.ev.eval(s.t, func(id int) uint64 { return model[id] })
		vals = append(vals, val)
		block = append(block, mkNot(mkEq(s.t, mkConst(w, val))))
	}
	if len(vals) > maxVals {
		panic(unsupported(fmt.Sprintf("more than %d feasible values while concretising at %s", maxVals, fr.site())))
	}
	if len(vals) == 0 {
		panic(engineAbort{abortInfeasible, "no feasible value at " + fr.site()})
	}
	sort.Slice(vals, func(a, b int) bool { return vals[a] < vals[b] })
	for k := len(vals) - 1; k >= 1; k-- {
		ps.fork(fr, decision{kind: decValue, val: int64(vals[k])})
	}
	d := decision{kind: decValue, val: int64(vals[0])}
	ps.apply(d, mkEq(s.t, mkConst(w, vals[0])))
	return conv(vals[0])
}

// choose forks n ways and returns 0..n-1.
func (ps *pathState) choose(fr *frame, n int) int {
	if ps.spec {
		panic(specAbort{})
	}
	if n <= 0 {
		panic(engineAbort{abortAssume, "Choose(0)"})
	}
	var val int64
	if d, ok := ps.nextPrefix(); ok {
		if d.kind != decValue {
			panic(engineAbort{abortInternal, fmt.Sprintf("decision vector out of sync at %d: want choice (%s)", len(ps.decisions), fr.site())})
		}
		val = d.val
		ps.decisions = append(ps.decisions, d)
	} else {
		for k := n - 1; k >= 1; k-- {
			ps.fork(fr, decision{kind: decValue, val: int64(k)})
		}
		ps.decisions = append(ps.decisions, decision{kind: decValue, val: 0})
	}
	ps.witnessOrder = append(ps.witnessOrder, witnessSlot{val: uint64(val)})
	return int(val)
}

// witnessFrom turns a variable assignment into the replay vector.
func (ps *pathState) witnessFrom(model []uint64) []uint64 {
	w := make([]uint64, 0, len(ps.witnessOrder))
	for _, s := range ps.witnessOrder {
		if s.isVar {
			var x uint64
			if s.v < len(model) {
				x = model[s.v]
			}
			w = append(w, x&mask(ps.vars[s.v].w))
		} else {
			w = append(w, s.val)
		}
	}
	return w
}

// ---- running one path -----------------------------------------------------------------

func (eng *Engine) getInterp() (*interpreter, error) {
	eng.mu.Lock()
	if n := len(eng.interps); n > 0 {
		i := eng.interps[n-1]
		eng.interps = eng.interps[:n-1]
		eng.mu.Unlock()
		return i, nil
	}
	eng.mu.Unlock()
	return newInterpreter(eng)
}

func (eng *Engine) putInterp(i *interpreter) {
	if i.static.dirty {
		return // drop: static maps were modified
	}
	eng.mu.Lock()
	eng.interps = append(eng.interps, i)
	eng.mu.Unlock()
}

func (eng *Engine) runPath(i *interpreter, slv *solver, job *Job, prefix []decision, st *workerStats, funcs map[*ssa.Function]int64) (res PathResult, forks [][]decision) {
	ps := &pathState{
		eng: eng, i: i, job: job, slv: slv, prefix: prefix,
		fuel: job.Fuel, covers: map[string]bool{}, funcs: funcs, st: st,
		rng: uint64(eng.Seed)*2654435761 + uint64(len(prefix))*40503 + 12345,
	}
	if ps.fuel == 0 {
		ps.fuel = 5_000_000
	}
	i.ps = ps
	res.Job = job
	entry := eng.mainPkg.Func(job.Entry)
	if entry == nil {
		res.Outcome = OutEngineError
		res.Msg = "no harness entry function " + job.Entry
		return
	}
	func() {
		defer func() {
			r := recover()
			i.ps = nil
			i.depth = 0
			i.static.restore()
			if r == nil {
				return
			}
			switch p := r.(type) {
			case targetPanic:
				res.Outcome = OutPanic
				res.Msg = panicMessage(p.v)
				res.Site = p.site
				res.Func = p.fn
			case engineAbort:
				switch p.kind {
				case abortFuel:
					res.Outcome = OutHang
					res.Msg = p.msg
				case abortUnsupported:
					res.Outcome = OutUnsupported
					res.Msg = p.msg
				case abortAssume:
					res.Outcome = OutAssumed
				case abortInfeasible:
					res.Outcome = OutInfeasible
					res.Msg = p.msg
				case abortEnd:
					res.Outcome = OutOK
					res.Msg = p.msg
				default:
					res.Outcome = OutEngineError
					res.Msg = p.msg
				}
			default:
				buf := make([]byte, 4096)
				buf = buf[:runtime.Stack(buf, false)]
				res.Outcome = OutEngineError
				res.Msg = fmt.Sprintf("%v\n%s", r, buf)
			}
		}()
		call(i, nil, token.NoPos, entry, nil)
	}()
	res.Instrs = ps.instrs
	res.Decisions = len(ps.decisions)
	res.SymVars = len(ps.vars)
	res.Approx = ps.approx
	res.Failures = ps.failures
	res.StaticWrites = ps.staticWrites
	res.LibStaticWrites = ps.libStaticWrites
	for c := range ps.covers {
		res.Covers = append(res.Covers, c)
	}
	sort.Strings(res.Covers)
	forks = ps.forks
	if len(ps.decisions) < len(prefix) && res.Outcome != OutEngineError {
		// the path ended before consuming its prefix: only legal when it was cut
		// by an abort that the discovering path did not hit (cannot happen: deterministic)
		res.Outcome = OutEngineError
		res.Msg = fmt.Sprintf("prefix not consumed: %d of %d decisions (%s)", len(ps.decisions), len(prefix), res.Msg)
	}
	switch res.Outcome {
	case OutAssumed, OutInfeasible, OutEngineError:
		return
	}
	// final model: the path condition must be satisfiable; the model is the witness
	var model []uint64
	needSolver := eng.FinalZ3 || len(ps.pc) > 0
	if needSolver {
		r, m := ps.solve(true)
		switch r {
		case resUnsat:
			res.Outcome = OutInfeasible
			return
		case resUnknown:
			res.Outcome = OutInconclusive
			res.Msg = "solver returned unknown for the final path condition"
			return
		}
		model = m
	} else {
		model = make([]uint64, len(ps.vars))
		for _, v := range ps.vars {
			if v.w == 8 {
				if v.dom.empty() {
					res.Outcome = OutInfeasible
					return
				}
				model[v.id] = uint64(niceByte(&v.dom))
			}
		}
	}
	res.Witness = ps.witnessFrom(model)
	for _, o := range ps.obs {
		res.Obs = append(res.Obs, Observation{o.tag, ps.renderObs(o, model)})
	}
	return
}

// niceByte picks a representative of the domain, preferring printable characters.
func niceByte(d *dom256) int {
	for _, c := range []int{'a', 'b', 'A', '0', '1', ' ', '\n', ';', '$'} {
		if d.has(c) {
			return c
		}
	}
	for c := 0x21; c < 0x7f; c++ {
		if d.has(c) {
			return c
		}
	}
	return d.first()
}

func (ps *pathState) renderObs(o obsEntry, model []uint64) string {
	get := func(id int) uint64 {
		if id < len(model) {
			return model[id]
		}
		return 0
	}
	if o.str {
		b := make([]byte, len(o.vals))
		for k, v := range o.vals {
			switch v := v.(type) {
			case byte:
				b[k] = v
			case sym:
				b[k] = byte(ps.ev.eval(v.t, get))
			}
		}
		return fmt.Sprintf("%q", b)
	}
	v := o.vals[0]
	switch v := v.(type) {
	case sym:
		u := ps.ev.eval(v.t, get)
		if v.k == types.Bool {
			if u != 0 {
				return "true"
			}
			return "false"
		}
		if kindSigned(v.k) {
			return fmt.Sprint(sext64(u, v.t.w))
		}
		return fmt.Sprint(u)
	default:
		return fmt.Sprint(v)
	}
}

func panicMessage(v value) string {
	switch x := v.(type) {
	case iface:
		switch s := x.v.(type) {
		case string:
			return s
		case structure:
			// errors.errorString{s}
			if len(s) == 1 {
				if m, ok := s[0].(string); ok {
					return m
				}
			}
		case *value:
			if s != nil {
				if st, ok := (*s).(structure); ok && len(st) >= 1 {
					if m, ok := st[0].(string); ok {
						return m
					}
				}
			}
		}
		return toString(x.v)
	}
	return toString(v)
}

// ---- exploring a job -------------------------------------------------------------------

type lockedWriter struct {
	mu sync.Mutex
	w  interface{ Write([]byte) (int, error) }
}

func (l *lockedWriter) Write(p []byte) (int, error) {
	l.mu.Lock()
	defer l.mu.Unlock()
	return l.w.Write(p)
}

// Explore runs every feasible path of the job and calls cb (serialised) for each.
func (eng *Engine) Explore(job *Job, cb func(*PathResult)) Stats {
	return eng.ExploreMany([]*Job{job}, cb)
}

type workItem struct {
	job    *Job
	prefix []decision
}

// ExploreMany explores all jobs with one shared pool of workers (interpreter +
// solver process per worker); cb is serialised and sees pr.Job.
func (eng *Engine) ExploreMany(jobs []*Job, cb func(*PathResult)) Stats {
	t0 := time.Now()
	st := Stats{ByOutcome: map[string]int64{}, Funcs: map[string]int64{}}
	var mu sync.Mutex // protects queue, st, cb
	cond := sync.NewCond(&mu)
	// jobs are started in order; the queue is a stack so that one job's paths are
	// finished before the next job is opened (bounded memory)
	pending := jobs
	var queue []workItem
	active := 0
	paths := map[*Job]int64{}
	stopped := map[*Job]bool{}
	workers := eng.Workers
	if workers <= 0 {
		workers = runtime.NumCPU()
	}
	var wg sync.WaitGroup
	var firstErr atomic.Value
	for w := 0; w < workers; w++ {
		wg.Add(1)
		go func() {
			defer wg.Done()
			var i *interpreter
			var slv *solver
			ws := &workerStats{}
			funcs := map[*ssa.Function]int64{}
			var instrs int64
			defer func() {
				mu.Lock()
				st.Forks += ws.forks
				st.DomQueries += ws.domQ
				st.DomRechecked += ws.domRe
				st.DomDisagree += ws.domDis
				st.Obligations += ws.oblig
				st.Discharged += ws.disch
				st.Instrs += instrs
				if slv != nil {
					st.Z3Queries += slv.queries
					st.Z3Seconds += float64(slv.nanos) / 1e9
					st.Z3Errors += slv.errors
					if s := slv.slowest.Seconds(); s > st.Z3Slowest {
						st.Z3Slowest = s
					}
				}
				for f, n := range funcs {
					st.Funcs[f.String()] += n
				}
				mu.Unlock()
				if slv != nil {
					slv.close()
				}
				if i != nil {
					eng.putInterp(i)
				}
			}()
			for {
				mu.Lock()
				var it workItem
				for {
					if len(queue) > 0 {
						it = queue[len(queue)-1]
						queue = queue[:len(queue)-1]
						if stopped[it.job] {
							continue
						}
						if it.job.MaxPaths > 0 && paths[it.job] >= it.job.MaxPaths {
							st.Truncated = true
							stopped[it.job] = true
							continue
						}
						break
					}
					if len(pending) > 0 {
						it = workItem{job: pending[0]}
						pending = pending[1:]
						break
					}
					if active == 0 {
						mu.Unlock()
						cond.Broadcast()
						return
					}
					cond.Wait()
				}
				active++
				paths[it.job]++
				mu.Unlock()

				fail := func(err error) {
					firstErr.Store(err)
					mu.Lock()
					active--
					queue = nil
					pending = nil
					mu.Unlock()
					cond.Broadcast()
				}
				if i == nil {
					var err error
					i, err = eng.getInterp()
					if err != nil {
						fail(err)
						return
					}
				}
				if slv == nil {
					var err error
					slv, err = newSolver(eng.SolverCmd, eng.TimeoutMs)
					if err != nil {
						fail(err)
						return
					}
					if eng.QueryLog != nil {
						slv.log = eng.QueryLog
					}
				}
				res, forks := eng.runPath(i, slv, it.job, it.prefix, ws, funcs)
				instrs += res.Instrs
				if i.static.dirty {
					i = nil
				}

				mu.Lock()
				active--
				for _, f := range forks {
					queue = append(queue, workItem{it.job, f})
				}
				st.Paths++
				st.ByOutcome[res.Outcome.String()]++
				if cb != nil {
					cb(&res)
				}
				mu.Unlock()
				cond.Broadcast()
			}
		}()
	}
	wg.Wait()
	if e := firstErr.Load(); e != nil {
		st.ByOutcome["engine-error"]++
		if cb != nil {
			cb(&PathResult{Job: jobs[0], Outcome: OutEngineError, Msg: e.(error).Error()})
		}
	}
	st.WallSeconds = time.Since(t0).Seconds()
	return st
}
